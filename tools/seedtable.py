#!/usr/bin/env python3
"""Print the markdown table of seeded changes (DESIGN.md section 0.4) from seeded/*/meta.json."""
import json, os, re, glob
rows = []
for d in sorted(glob.glob("/verif/seeded/*/meta.json")):
    name = os.path.basename(os.path.dirname(d))
    m = json.load(open(d))
    chk = m.get("check", {})
    summ = re.sub(r"\s+", " ", str(m.get("summary", ""))).strip()
    summ = summ[:230] + ("…" if len(summ) > 230 else "")
    det = "caught" if chk.get("detected") else "**missed**"
    by = ""
    for l in chk.get("output", []):
        mm = re.search(r"^\s+(\S+) in .*job=([\w.-]+)", l)
        if mm:
            by = "`%s` (job `%s`)" % (mm.group(1), mm.group(2)); break
    note = m.get("verif_note", "")
    if chk.get("first_run"):
        note = ("first run missed, check strengthened. " + note).strip()
    tier = "thorough" if "thorough" in chk.get("cmd", "") else "quick"
    rows.append("| %s | %s | %s (%s) | %s | %s |" % (name, summ.replace("|", "\\|"), det, tier, by, note))
print("| seed | change | result | caught by | note |\n|---|---|---|---|---|")
print("\n".join(rows))
