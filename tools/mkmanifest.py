#!/usr/bin/env python3
"""Regenerates MANIFEST.json from harness/*/spec.json (claimed) and tools/not_applicable.json."""
import json, os, glob
ROOT = os.path.dirname(os.path.dirname(os.path.abspath(__file__)))
na = json.load(open(os.path.join(ROOT, "tools", "not_applicable.json")))
checks = []
claimed = set()
for sp in sorted(glob.glob(os.path.join(ROOT, "harness", "C*", "spec.json"))):
    s = json.load(open(sp))
    if s.get("disabled"):
        continue
    pid = s["property"]
    claimed.add(pid)
    checks.append({
        "property_id": pid,
        "quick_cmd": "./check %s --tier quick" % pid,
        "thorough_cmd": "./check %s --tier thorough" % pid,
        "evidence_file": "/verif/evidence/%s.json" % pid,
        "replay_cmd_template": "./check %s --replay {path}" % pid,
        "engine": "gosym",
        "level_claimed": {"category": s.get("level", "other"), "text": s["level_text"], "design_ref": s.get("design_ref", "DESIGN.md §5 " + pid)},
        "level_note": s["level_note"],
        "technique": s.get("technique", "bounded symbolic execution of the real SSA + SMT (z3)"),
    })
m = {
    "version": 1,
    "setup_cmd": "./setup.sh",
    "hooks": {"guard": "verif", "enable": "go build -tags verif (no hook commits exist: all harnesses are injected through -overlay / packages.Config.Overlay)",
              "baseline_off_cmd": "cd /repo && GOFLAGS=-mod=mod go test -vet=off -count=1 ./...", "source_commits": [], "add_only": True},
    "engines": [{"name": "gosym", "path": "/verif/engine", "serves_properties": sorted(claimed),
                 "kind_free_text": "symbolic executor for go/ssa (x/tools v0.29.0): stateless DFS over solver-checked path decisions, guarded merged evaluation of pure functions, obligations for panics/allocations/assertions, z3 -in back end, native replay of models through go test -overlay"}],
    "checks": checks,
    "not_applicable": [x for x in na if x["property_id"] not in claimed],
    "notes": "See DESIGN.md. Every result is bounded: 'holds for all inputs within the stated bounds' or a replayed counterexample.",
}
json.dump(m, open(os.path.join(ROOT, "MANIFEST.json"), "w"), indent=1)
print("claimed:", sorted(claimed))
