#!/usr/bin/env python3
"""Re-run the registered check of a property against an already confirmed seeded change.

  tools/reseed.py <seed-name> [<tier>]

The patch in /verif/seeded/<seed>/patch.diff is applied to a scratch worktree of /repo's HEAD (never to
/repo itself); ./check <property> runs against it (VERIF_REPO) with its evidence in a scratch directory;
the outcome is recorded in meta.json under "check"; the worktree is removed.
"""
import json, os, subprocess, sys
name = sys.argv[1]
tier = sys.argv[2] if len(sys.argv) > 2 else "quick"
d = os.path.join("/verif/seeded", name)
meta = json.load(open(os.path.join(d, "meta.json")))
prop = meta.get("property") or name.split("_")[0]
ENV = dict(os.environ, GOFLAGS="-mod=mod", GOPROXY="off"); ENV.pop("GOSUMDB", None)
def sh(cmd, cwd, timeout=5400):
    r = subprocess.run(cmd, shell=True, cwd=cwd, env=ENV, text=True, capture_output=True, timeout=timeout)
    return r.returncode, r.stdout + r.stderr
wt = "/tmp/repo_seed_" + name
sh("git -C /repo worktree remove --force %s" % wt, "/repo")
rc, out = sh("git -C /repo worktree add -q --detach %s HEAD" % wt, "/repo"); assert rc == 0, out
try:
    rc, out = sh("git apply %s" % os.path.join(d, "patch.diff"), wt)
    if rc != 0:
        meta["check"] = {"applied_to_repo": False, "why": out[-300:]}
    else:
        ENV["VERIF_REPO"] = wt; ENV["VERIF_EVIDENCE_DIR"] = "/tmp/evidence_seed_" + name
        rc, out = sh("./check %s --tier %s" % (prop, tier), "/verif")
        lines = [l[:400] for l in out.splitlines() if l.startswith(("VIOLATION", "SPURIOUS", "INCOMPLETE", "UNSUPPORTED", "ERROR", prop + " tier")) or l.startswith("  ")]
        prev = meta.get("check", {})
        meta["check"] = {"applied_to_repo": True, "cmd": "./check %s --tier %s" % (prop, tier), "exit": rc, "detected": rc == 1, "output": lines[:8]}
        if prev.get("detected") is False and rc == 1:
            meta["check"]["first_run"] = "missed; the check was strengthened afterwards (see DESIGN.md)"
        elif "first_run" in prev:
            meta["check"]["first_run"] = prev["first_run"]
    json.dump(meta, open(os.path.join(d, "meta.json"), "w"), indent=1)
    print(name, "detected" if meta["check"].get("detected") else "MISSED", meta["check"].get("exit"))
finally:
    sh("git -C /repo worktree remove --force %s" % wt, "/repo")
    sh("rm -rf /tmp/evidence_seed_" + name, "/tmp")
