#!/usr/bin/env python3
"""Confirm a seeded change delivered by a sub-agent and run the property's check against it.

  tools/seeded.py <worktree> <seed-dir-name> <property> [<check-tier>]

1. in the scratch worktree: apply patch, build, run the touched packages' tests, run the demo (must fail);
   revert, run the demo again (must pass);
2. copy patch/demo/meta to /verif/seeded/<name>/;
3. apply the patch to /repo, run ./check <property>, undo (git checkout -- .), record the outcome in meta.json.
"""
import json, os, subprocess, sys, shutil
wt, name, prop = sys.argv[1], sys.argv[2], sys.argv[3]
tier = sys.argv[4] if len(sys.argv) > 4 else "quick"
ENV = dict(os.environ, GOFLAGS="-mod=mod", GOPROXY="off"); ENV.pop("GOSUMDB", None)
src = os.path.join(wt, "_seeded", name)
def sh(cmd, cwd, timeout=1500):
    r = subprocess.run(cmd, shell=True, cwd=cwd, env=ENV, text=True, capture_output=True, timeout=timeout)
    return r.returncode, (r.stdout + r.stderr)
patch = os.path.join(src, "patch.diff")
demo_path = open(os.path.join(src, "demo_path.txt")).read().strip()
demo_src = os.path.join(src, "demo_test.go.txt")
pkgs = sorted({os.path.dirname(l[6:].strip()) for l in open(patch) if l.startswith("+++ b/")})
pk = " ".join("./" + p + "/..." for p in pkgs)
demo_pkg = "./" + os.path.dirname(demo_path)
res = {}
sh("git checkout -- . && git clean -fdq -e _seeded", wt)
rc, out = sh("git apply %s" % patch, wt); res["apply"] = rc == 0
rc, out = sh("go build ./... ", wt); res["build_with_patch"] = rc == 0
rc, out = sh("go test -vet=off -count=1 -skip TestSentencePieceEncode %s" % pk, wt); res["existing_tests_pass_with_patch"] = rc == 0; res["existing_tests_tail"] = out[-400:]
shutil.copy(demo_src, os.path.join(wt, demo_path))
rc, out = sh("go test -vet=off -count=1 -run 'Seeded' %s" % demo_pkg, wt); res["demo_fails_with_patch"] = rc != 0; res["demo_with_patch_tail"] = out[-600:]
sh("git checkout -- .", wt)
rc, out = sh("go test -vet=off -count=1 -run 'Seeded' %s" % demo_pkg, wt); res["demo_passes_without_patch"] = rc == 0; res["demo_without_patch_tail"] = out[-300:]
os.remove(os.path.join(wt, demo_path))
print(json.dumps({k: v for k, v in res.items() if not k.endswith("_tail")}))
ok = all(res[k] for k in ("apply", "build_with_patch", "existing_tests_pass_with_patch", "demo_fails_with_patch", "demo_passes_without_patch"))
dst = os.path.join("/verif/seeded", name)
if not ok:
    print("NOT CONFIRMED; not kept"); print(res.get("demo_with_patch_tail")); print(res.get("existing_tests_tail")); sys.exit(1)
os.makedirs(dst, exist_ok=True)
shutil.copy(patch, os.path.join(dst, "patch.diff"))
shutil.copy(demo_src, os.path.join(dst, "demo_test.go.txt"))
shutil.copy(os.path.join(src, "demo_path.txt"), os.path.join(dst, "demo_path.txt"))
meta = json.load(open(os.path.join(src, "meta.json")))
meta["confirmed_by_me"] = {k: v for k, v in res.items() if not k.endswith("_tail")}
# run my check against it: in a scratch worktree of /repo's HEAD (VERIF_REPO), so that /repo itself stays
# untouched and other checks can run meanwhile; evidence of seeded runs goes to a scratch directory
SEED_REPO = "/tmp/repo_seed_" + name
sh("git -C /repo worktree remove --force %s" % SEED_REPO, "/repo")
rc, out = sh("git -C /repo worktree add -q --detach %s HEAD" % SEED_REPO, "/repo")
assert rc == 0, out
ENV["VERIF_REPO"] = SEED_REPO
ENV["VERIF_EVIDENCE_DIR"] = "/tmp/evidence_seed_" + name
rc, out = sh("git apply %s" % patch, SEED_REPO)
if rc != 0:
    meta["check"] = {"applied_to_repo": False, "why": out[-300:]}
else:
    rc, out = sh("./check %s --tier %s" % (prop, tier), "/verif", timeout=3600)
    lines = [l for l in out.splitlines() if l.startswith(("VIOLATION", "KNOWN", "SPURIOUS", "INCOMPLETE", "UNSUPPORTED", "ERROR", prop + " tier")) or l.startswith("  ")]
    meta["check"] = {"applied_to_repo": True, "cmd": "./check %s --tier %s" % (prop, tier), "exit": rc, "detected": rc == 1, "output": lines[:12]}
    print("\n".join(lines[:8]))
sh("git -C /repo worktree remove --force %s" % SEED_REPO, "/repo")
shutil.rmtree("/tmp/evidence_seed_" + name, ignore_errors=True)
json.dump(meta, open(os.path.join(dst, "meta.json"), "w"), indent=1)
print("kept", dst, "detected" if meta["check"].get("detected") else "MISSED")
