#!/bin/sh
# Builds the engine from files on disk only (offline) and warms the package-load cache.
set -e
cd "$(dirname "$0")"
export GOFLAGS=-mod=mod GOPROXY=off
unset GOSUMDB
mkdir -p bin evidence
(cd engine && go build -o ../bin/gosym .)
# warm the build cache for the packages the checks load (cgo preprocessing of ./server is slow when cold)
(cd /repo && go list -deps ./server ./fs/ggml ./kvcache ./runner/ollamarunner ./llm ./sample ./model ./types/model ./server/internal/cache/blob ./server/internal/client/ollama >/dev/null 2>&1 || true)
(cd /repo && go vet -vettool=/bin/true ./server >/dev/null 2>&1 || true)
echo setup ok
