package main

// Symbolic interpreter for go/ssa. Pointers, types, closures and map identities are
// concrete along a path; scalars (and string/slice lengths and contents) are SMT terms.
// Control flow that depends on a symbolic condition becomes a decision of the
// exploration (explore.go); potential run-time panics and harness assertions become
// solver obligations.

import (
	"fmt"
	"os"
	"go/constant"
	"go/token"
	"go/types"
	"strings"

	"golang.org/x/tools/go/ssa"
)

var traceFns = os.Getenv("GOSYM_TRACE_FN") != ""

type unsupportedErr struct{ msg string }

func unsupported(msg string) unsupportedErr { return unsupportedErr{msg} }

type pathEnd struct{ reason string } // normal end of a path (assume false, panic recorded, blocked…)
type mergeAbort struct{ why string } // merged evaluation cannot continue; caller falls back to forking

type fnInfo struct {
	idx       map[ssa.Value]int
	nregs     int
	mergeable int8
	loops     []*loopInfo
	loopsDone bool
	pure      int8
}

type deferred struct {
	fn   Value
	args []Value
	call *ssa.CallCommon
}

type Frame struct {
	fn     *ssa.Function
	info   *fnInfo
	regs   []Value
	defers []deferred
	caller *Frame
	g      *Goroutine
	pos    token.Pos
}

func (w *World) info(fn *ssa.Function) *fnInfo {
	w.infoMu.Lock()
	defer w.infoMu.Unlock()
	if fi, ok := w.infos[fn]; ok {
		return fi
	}
	fi := &fnInfo{idx: map[ssa.Value]int{}}
	n := 0
	for _, p := range fn.Params {
		fi.idx[p] = n
		n++
	}
	for _, p := range fn.FreeVars {
		fi.idx[p] = n
		n++
	}
	for _, b := range fn.Blocks {
		for _, in := range b.Instrs {
			if v, ok := in.(ssa.Value); ok {
				fi.idx[v] = n
				n++
			}
		}
	}
	fi.nregs = n
	w.infos[fn] = fi
	return fi
}

func (c *Ctx) get(fr *Frame, v ssa.Value) Value {
	switch v := v.(type) {
	case *ssa.Const:
		return c.constVal(v)
	case *ssa.Function:
		return &Closure{fn: v}
	case *ssa.Global:
		return Ptr{p: c.global(v)}
	case *ssa.Builtin:
		return &Closure{intr: "builtin:" + v.Name()}
	}
	i, ok := fr.info.idx[v]
	if !ok {
		panic(fmt.Sprintf("no register for %s in %s", v.Name(), fr.fn))
	}
	r := fr.regs[i]
	if r == nil {
		if _, isP := v.Type().Underlying().(*types.Basic); isP && v.Type().Underlying().(*types.Basic).Kind() == types.UntypedNil {
			return nil
		}
	}
	return r
}

func (c *Ctx) set(fr *Frame, v ssa.Value, val Value) {
	fr.regs[fr.info.idx[v]] = val
}

func (c *Ctx) constVal(k *ssa.Const) Value {
	if v, ok := c.constCache[k]; ok {
		return v
	}
	v := c.constVal0(k)
	c.constCache[k] = v
	return v
}

func (c *Ctx) constVal0(k *ssa.Const) Value {
	if k.Value == nil {
		return c.zero(k.Type())
	}
	switch t := k.Type().Underlying().(type) {
	case *types.Basic:
		switch {
		case t.Info()&types.IsString != 0:
			return mkStr(constant.StringVal(k.Value))
		case t.Info()&types.IsBoolean != 0:
			return c.tb.Bool(constant.BoolVal(k.Value))
		case t.Info()&types.IsInteger != 0:
			s, _ := sortOfBasic(t)
			if i, ok := constant.Int64Val(constant.ToInt(k.Value)); ok {
				return c.tb.Const(uint64(i), s)
			}
			u, _ := constant.Uint64Val(constant.ToInt(k.Value))
			return c.tb.Const(u, s)
		case t.Info()&types.IsFloat != 0:
			f, _ := constant.Float64Val(k.Value)
			if t.Kind() == types.Float32 {
				return c.tb.F32(float32(f))
			}
			return c.tb.F64(f)
		case t.Info()&types.IsComplex != 0:
			return Opaque{what: "complex"}
		}
	}
	panic(unsupported("const " + k.String()))
}

// ---------------------------------------------------------------------------
// calls

func fnName(fn *ssa.Function) string {
	if o := fn.Origin(); o != nil {
		return o.String()
	}
	return fn.String()
}

func (c *Ctx) callValue(fr *Frame, fv Value, args []Value, site *ssa.CallCommon) Value {
	cl, _ := fv.(*Closure)
	if cl == nil {
		c.violation("panic:nil-func-call", fr, "call of nil function")
		panic(pathEnd{"nil func"})
	}
	if cl.fn == nil {
		return c.callIntrinsicValue(fr, cl, args, site)
	}
	if len(cl.env) > 0 {
		return c.call(fr, cl.fn, args, cl.env)
	}
	return c.call(fr, cl.fn, args, nil)
}

func (c *Ctx) call(caller *Frame, fn *ssa.Function, args []Value, env []Value) Value {
	name := fnName(fn)
	if strings.HasPrefix(fn.Name(), "verif") {
		if r, ok := c.verifCall(caller, fn, args); ok {
			return r
		}
	}
	if rep, ok := c.w.replacements[name]; ok && (caller == nil || caller.fn != rep) {
		fn = rep
		name = fnName(fn)
	}
	if in, ok := intrinsics[name]; ok {
		return in(c, caller, fn, args)
	}
	if isLogLike(name) {
		if strings.Contains(name, "Fatal") || strings.Contains(name, "Panic") {
			panic(pathEnd{"log.Fatal"})
		}
		return inNopZero(c, caller, fn, args)
	}
	if fn.Blocks == nil {
		if in := c.externalFallback(name); in != nil {
			return in(c, caller, fn, args)
		}
		panic(unsupported("external function " + name))
	}
	if c.merging == 0 && c.w.cfg.Merge && c.initMode == 0 && c.hasSymbolic(args) && c.mergeCandidate(fn) {
		if r, ok := c.tryMerged(caller, fn, args, env); ok {
			return r
		}
	}
	if c.merging > 0 {
		return c.callMerged(caller, fn, args, env)
	}
	return c.runFunction(caller, fn, args, env)
}

func (c *Ctx) newFrame(caller *Frame, fn *ssa.Function, args []Value, env []Value) *Frame {
	fi := c.w.info(fn)
	fr := &Frame{fn: fn, info: fi, regs: make([]Value, fi.nregs), caller: caller}
	if caller != nil {
		fr.g = caller.g
	}
	if len(args) != len(fn.Params) {
		panic(fmt.Sprintf("arity mismatch calling %s: %d args, %d params", fn, len(args), len(fn.Params)))
	}
	copy(fr.regs, args)
	copy(fr.regs[len(fn.Params):], env)
	return fr
}

func (c *Ctx) runFunction(caller *Frame, fn *ssa.Function, args []Value, env []Value) Value {
	c.depth++
	if c.depth > c.w.cfg.MaxDepth {
		c.incomplete("call depth bound reached in " + fn.String())
		panic(pathEnd{"depth"})
	}
	defer func() { c.depth-- }()
	c.noteFn(fn)
	if traceFns && c.sched != nil && c.w.isRepoFn(fn) {
		c.sched.note("g%d:call %s", c.sched.cur.id, fn.Name())
	}
	fr := c.newFrame(caller, fn, args, env)
	return c.runFrame(fr)
}

func (c *Ctx) noteFn(fn *ssa.Function) {
	if c.fnSeen[fn] {
		return
	}
	c.fnSeen[fn] = true
}

func (c *Ctx) runFrame(fr *Frame) Value {
	c.cur = fr
	var prev *ssa.BasicBlock
	b := fr.fn.Blocks[0]
	visits := 0
	for {
		visits++
		// phis first (parallel assignment)
		nphi := 0
		if prev != nil {
			pi := -1
			for i, p := range b.Preds {
				if p == prev {
					pi = i
					break
				}
			}
			var tmp []Value
			for _, in := range b.Instrs {
				phi, ok := in.(*ssa.Phi)
				if !ok {
					break
				}
				tmp = append(tmp, c.get(fr, phi.Edges[pi]))
				nphi++
			}
			for i := 0; i < nphi; i++ {
				c.set(fr, b.Instrs[i].(*ssa.Phi), tmp[i])
			}
		}
		var next *ssa.BasicBlock
		for _, in := range b.Instrs[nphi:] {
			c.steps++
			if c.steps > c.w.cfg.MaxSteps {
				c.incomplete("step bound reached in " + fr.fn.String())
				panic(pathEnd{"steps"})
			}
			switch in := in.(type) {
			case *ssa.If:
				fr.pos = in.Pos()
				cond := c.get(fr, in.Cond).(*Term)
				if c.branch(cond, fr) {
					next = b.Succs[0]
				} else {
					next = b.Succs[1]
				}
			case *ssa.Jump:
				next = b.Succs[0]
			case *ssa.Return:
				var res Value
				switch len(in.Results) {
				case 0:
				case 1:
					res = c.get(fr, in.Results[0])
				default:
					t := make(Tuple, len(in.Results))
					for i, r := range in.Results {
						t[i] = c.get(fr, r)
					}
					res = t
				}
				c.cur = fr.caller
				return res
			case *ssa.Panic:
				fr.pos = in.Pos()
				c.explicitPanic(fr, c.get(fr, in.X))
			default:
				c.exec(fr, in)
				c.cur = fr
			}
		}
		if next == nil {
			panic("block without terminator in " + fr.fn.String())
		}
		prev, b = b, next
	}
}

func (c *Ctx) explicitPanic(fr *Frame, v Value) {
	msg := "panic"
	if i, ok := v.(Iface); ok && i.t != nil {
		if s, ok := i.v.(Str); ok && s.b == nil {
			msg = "panic: " + s.c
		} else {
			msg = "panic(" + i.t.String() + ")"
			if s := c.errorText(i); s != "" {
				msg = "panic: " + s
			}
		}
	}
	c.violation("panic:explicit", fr, msg)
	panic(pathEnd{"panic"})
}

// ---------------------------------------------------------------------------
// non-control instructions

func (c *Ctx) exec(fr *Frame, in ssa.Instruction) {
	if p := in.Pos(); p.IsValid() {
		fr.pos = p
	}
	switch in := in.(type) {
	case *ssa.DebugRef:
	case *ssa.Alloc:
		cell := new(Value)
		*cell = c.zero(in.Type().Underlying().(*types.Pointer).Elem())
		c.set(fr, in, Ptr{p: cell})
	case *ssa.BinOp:
		c.set(fr, in, c.binop(fr, in.Op, in.X.Type(), c.get(fr, in.X), c.get(fr, in.Y)))
	case *ssa.UnOp:
		c.set(fr, in, c.unop(fr, in))
	case *ssa.Call:
		c.set(fr, in, c.doCall(fr, &in.Call))
	case *ssa.ChangeInterface:
		c.set(fr, in, c.get(fr, in.X))
	case *ssa.ChangeType:
		c.set(fr, in, c.get(fr, in.X))
	case *ssa.Convert:
		c.set(fr, in, c.convert(fr, in.X.Type(), in.Type(), c.get(fr, in.X)))
	case *ssa.MultiConvert:
		c.set(fr, in, c.convert(fr, in.X.Type(), in.Type(), c.get(fr, in.X)))
	case *ssa.Extract:
		c.set(fr, in, c.get(fr, in.Tuple).(Tuple)[in.Index])
	case *ssa.Field:
		c.set(fr, in, copyVal(c.get(fr, in.X).(Agg)[in.Field]))
	case *ssa.FieldAddr:
		p := c.get(fr, in.X).(Ptr)
		p = c.concPtr(fr, p, "field access")
		c.set(fr, in, Ptr{p: &(*p.p).(Agg)[in.Field]})
	case *ssa.Index:
		c.set(fr, in, c.index(fr, in))
	case *ssa.IndexAddr:
		c.set(fr, in, c.indexAddr(fr, in))
	case *ssa.Lookup:
		c.set(fr, in, c.lookup(fr, in))
	case *ssa.MakeInterface:
		c.set(fr, in, Iface{t: in.X.Type(), v: c.get(fr, in.X)})
	case *ssa.MakeClosure:
		env := make([]Value, len(in.Bindings))
		for i, b := range in.Bindings {
			env[i] = c.get(fr, b)
		}
		c.set(fr, in, &Closure{fn: in.Fn.(*ssa.Function), env: env})
	case *ssa.MakeMap:
		c.nextObj++
		c.set(fr, in, &Map{index: map[string]int{}, id: c.nextObj})
	case *ssa.MakeChan:
		n := c.get(fr, in.Size).(*Term)
		if !n.isC {
			panic(unsupported("symbolic channel capacity"))
		}
		c.nextObj++
		c.set(fr, in, &Chan{cap: int(n.cval), id: c.nextObj})
	case *ssa.MakeSlice:
		c.set(fr, in, c.makeSlice(fr, in.Type(), c.get(fr, in.Len).(*Term), c.get(fr, in.Cap).(*Term)))
	case *ssa.MapUpdate:
		c.noMerge("map update")
		m := c.get(fr, in.Map).(*Map)
		if m == nil {
			c.violation("panic:nil-map-write", fr, "assignment to entry in nil map")
			panic(pathEnd{"panic"})
		}
		if c.raceEnabled(fr) {
			c.raceAccess(fr, m, true)
		}
		c.mapSet(fr, m, c.get(fr, in.Key), copyVal(c.get(fr, in.Value)))
	case *ssa.Next:
		c.set(fr, in, c.next(fr, in))
	case *ssa.Range:
		c.set(fr, in, c.rangeInit(fr, in))
	case *ssa.Slice:
		c.set(fr, in, c.sliceOp(fr, in))
	case *ssa.SliceToArrayPointer:
		s := c.get(fr, in.X).(Slice)
		n := int(in.Type().Underlying().(*types.Pointer).Elem().Underlying().(*types.Array).Len())
		c.obligation(fr, c.tb.Bin("bvslt", s.n, c.tb.Int(int64(n), 64)), "panic:slice-to-array", "slice too short for array conversion")
		if s.arr == nil {
			c.set(fr, in, Ptr{})
		} else {
			cell := new(Value)
			*cell = Agg(s.arr.elems[s.off : s.off+n : s.off+n])
			c.set(fr, in, Ptr{p: cell})
		}
	case *ssa.Store:
		if c.merging > 0 && c.guard != nil && !c.guard.IsTrue() {
			// guarded assignment: the cell keeps its old value on paths outside the guard
			p := c.get(fr, in.Addr).(Ptr)
			old := c.load(fr, p)
			c.store(fr, p, c.iteVal(c.guard, c.get(fr, in.Val), old))
		} else {
			c.store(fr, c.get(fr, in.Addr).(Ptr), c.get(fr, in.Val))
		}
	case *ssa.TypeAssert:
		c.set(fr, in, c.typeAssert(fr, in))
	case *ssa.Defer:
		c.noMerge("defer")
		fv, args := c.prepareCall(fr, &in.Call)
		fr.defers = append(fr.defers, deferred{fn: fv, args: args, call: &in.Call})
	case *ssa.RunDefers:
		for len(fr.defers) > 0 {
			d := fr.defers[len(fr.defers)-1]
			fr.defers = fr.defers[:len(fr.defers)-1]
			c.invokePrepared(fr, d.fn, d.args, d.call)
		}
	case *ssa.Go:
		c.noMerge("go")
		fv, args := c.prepareCall(fr, &in.Call)
		c.spawn(fr, fv, args, &in.Call)
	case *ssa.Send:
		c.noMerge("send")
		c.chanSend(fr, c.get(fr, in.Chan).(*Chan), copyVal(c.get(fr, in.X)))
	case *ssa.Select:
		c.noMerge("select")
		c.set(fr, in, c.selectOp(fr, in))
	default:
		panic(unsupported(fmt.Sprintf("instruction %T", in)))
	}
}

func (c *Ctx) noMerge(what string) {
	if c.merging > 0 {
		panic(mergeAbort{what})
	}
}

// concPtr makes a symbolic element pointer concrete by case-splitting its index.
func (c *Ctx) concPtr(fr *Frame, p Ptr, why string) Ptr {
	if p.p == nil && p.arr == nil {
		c.violation("panic:nil-deref", fr, "nil pointer dereference ("+why+")")
		panic(pathEnd{"panic"})
	}
	if p.arr == nil {
		return p
	}
	i := c.concretize(fr, p.idx, "element index for "+why)
	return Ptr{p: &p.arr.elems[p.off+int(i)]}
}

func (c *Ctx) load(fr *Frame, p Ptr) Value {
	if p.p != nil {
		if c.raceEnabled(fr) {
			c.raceAccess(fr, p.p, false)
		}
		return copyVal(*p.p)
	}
	if p.arr == nil {
		c.violation("panic:nil-deref", fr, "nil pointer dereference (load)")
		panic(pathEnd{"panic"})
	}
	// symbolic element: ite chain (scalars and strings), else concretise
	if p.n == 0 {
		panic(pathEnd{"load from empty range"})
	}
	first := p.arr.elems[p.off]
	if _, ok := first.(*Term); !ok {
		if _, isAgg := first.(Agg); isAgg && p.n <= 64 && aggOfTerms(first) {
			var cur Value = p.arr.elems[p.off+p.n-1]
			for k := p.n - 2; k >= 0; k-- {
				cur = c.iteVal(c.tb.Eq(p.idx, c.tb.Int(int64(k), 64)), p.arr.elems[p.off+k], cur)
			}
			return copyVal(cur)
		}
		if _, isStr := first.(Str); isStr && p.n <= 2048 {
			all := true
			for k := 0; k < p.n; k++ {
				if _, ok := p.arr.elems[p.off+k].(Str); !ok {
					all = false
					break
				}
			}
			if all {
				var cur Value = p.arr.elems[p.off+p.n-1]
				for k := p.n - 2; k >= 0; k-- {
					cur = c.iteVal(c.tb.Eq(p.idx, c.tb.Int(int64(k), 64)), p.arr.elems[p.off+k], cur)
				}
				return cur
			}
		}
		q := c.concPtr(fr, p, "load")
		return copyVal(*q.p)
	}
	cur := p.arr.elems[p.off+p.n-1].(*Term)
	for k := p.n - 2; k >= 0; k-- {
		cur = c.tb.Ite(c.tb.Eq(p.idx, c.tb.Int(int64(k), 64)), p.arr.elems[p.off+k].(*Term), cur)
	}
	return cur
}

func (c *Ctx) store(fr *Frame, p Ptr, v Value) {
	if p.p != nil {
		if c.raceEnabled(fr) {
			c.raceAccess(fr, p.p, true)
		}
		c.assign(p.p, v)
		return
	}
	if p.arr == nil {
		c.violation("panic:nil-deref", fr, "nil pointer dereference (store)")
		panic(pathEnd{"panic"})
	}
	nv, ok := v.(*Term)
	if !ok || p.n > c.w.cfg.MaxSymStore {
		q := c.concPtr(fr, p, "store")
		c.assign(q.p, v)
		return
	}
	for k := 0; k < p.n; k++ {
		slot := &p.arr.elems[p.off+k]
		old := (*slot).(*Term)
		c.assign(slot, c.tb.Ite(c.tb.Eq(p.idx, c.tb.Int(int64(k), 64)), nv, old))
	}
}

// assign writes v into the slot, keeping aggregate backing storage in place (so that
// slices of arrays keep aliasing) and logging the old value for undo at the end of the run.
func (c *Ctx) assign(slot *Value, v Value) {
	if dst, ok := (*slot).(Agg); ok {
		if src, ok := v.(Agg); ok && len(src) == len(dst) {
			for i := range dst {
				c.assign(&dst[i], src[i])
			}
			return
		}
	}
	if c.initMode == 0 {
		c.undo = append(c.undo, undoRec{p: slot, old: *slot})
	}
	*slot = copyVal(v)
}

func (c *Ctx) unop(fr *Frame, in *ssa.UnOp) Value {
	x := c.get(fr, in.X)
	switch in.Op {
	case token.MUL:
		return c.load(fr, x.(Ptr))
	case token.NOT:
		return c.tb.Not(x.(*Term))
	case token.SUB:
		t := x.(*Term)
		if t.s.F {
			return c.tb.fneg(t)
		}
		return c.tb.BvNeg(t)
	case token.XOR:
		return c.tb.BvNot(x.(*Term))
	case token.ARROW:
		c.noMerge("recv")
		v, ok := c.chanRecv(fr, x.(*Chan), in.X.Type().Underlying().(*types.Chan).Elem())
		if in.CommaOk {
			return Tuple{v, c.tb.Bool(ok)}
		}
		return v
	}
	panic(unsupported("unop " + in.Op.String()))
}

func (c *Ctx) prepareCall(fr *Frame, call *ssa.CallCommon) (Value, []Value) {
	var args []Value
	var fv Value
	if call.IsInvoke() {
		recv := c.get(fr, call.Value).(Iface)
		if recv.t == nil {
			c.violation("panic:nil-deref", fr, "method call on nil interface: "+call.Method.Name())
			panic(pathEnd{"panic"})
		}
		fn := c.w.lookupMethod(recv.t, call.Method)
		if fn == nil {
			panic(unsupported(fmt.Sprintf("no method %s on %s", call.Method.Name(), recv.t)))
		}
		fv = &Closure{fn: fn}
		args = append(args, recv.v)
	} else {
		fv = c.get(fr, call.Value)
	}
	for _, a := range call.Args {
		args = append(args, copyVal(c.get(fr, a)))
	}
	return fv, args
}

func (c *Ctx) invokePrepared(fr *Frame, fv Value, args []Value, call *ssa.CallCommon) Value {
	return c.callValue(fr, fv, args, call)
}

func (c *Ctx) doCall(fr *Frame, call *ssa.CallCommon) Value {
	if b, ok := call.Value.(*ssa.Builtin); ok {
		args := make([]Value, len(call.Args))
		for i, a := range call.Args {
			args[i] = c.get(fr, a)
		}
		return c.builtin(fr, b.Name(), args, call)
	}
	fv, args := c.prepareCall(fr, call)
	return c.callValue(fr, fv, args, call)
}

func (w *World) lookupMethod(t types.Type, m *types.Func) *ssa.Function {
	key := methodKey{t, m.Id()}
	w.infoMu.Lock()
	if fn, ok := w.methods[key]; ok {
		w.infoMu.Unlock()
		return fn
	}
	w.infoMu.Unlock()
	ms := w.prog.MethodSets.MethodSet(t)
	sel := ms.Lookup(m.Pkg(), m.Name())
	var fn *ssa.Function
	if sel != nil {
		fn = w.prog.MethodValue(sel)
	}
	w.infoMu.Lock()
	w.methods[key] = fn
	w.infoMu.Unlock()
	return fn
}

type methodKey struct {
	t  types.Type
	id string
}

// ---------------------------------------------------------------------------
// type assertions, interfaces

func (c *Ctx) typeAssert(fr *Frame, in *ssa.TypeAssert) Value {
	x := c.get(fr, in.X).(Iface)
	ok := false
	var res Value
	if x.t != nil {
		if it, isI := in.AssertedType.Underlying().(*types.Interface); isI {
			if c.w.implements(x.t, it) {
				ok, res = true, x
			}
		} else if types.Identical(x.t, in.AssertedType) {
			ok, res = true, x.v
		}
	}
	if in.CommaOk {
		if !ok {
			res = c.zero(in.AssertedType)
		}
		return Tuple{res, c.tb.Bool(ok)}
	}
	if !ok {
		have := "nil"
		if x.t != nil {
			have = x.t.String()
		}
		c.violation("panic:type-assertion", fr, fmt.Sprintf("interface conversion: interface is %s, not %s", have, in.AssertedType))
		panic(pathEnd{"panic"})
	}
	return res
}

func (w *World) implements(t types.Type, it *types.Interface) bool {
	key := implKey{t, it}
	w.infoMu.Lock()
	v, ok := w.impls[key]
	w.infoMu.Unlock()
	if ok {
		return v
	}
	v = types.Implements(t, it)
	w.infoMu.Lock()
	w.impls[key] = v
	w.infoMu.Unlock()
	return v
}

type implKey struct {
	t  types.Type
	it *types.Interface
}

// ---------------------------------------------------------------------------
// indexing and slicing

func (c *Ctx) boundsCheck(fr *Frame, i *Term, n *Term, what string) {
	// 0 <= i < n  (unsigned compare covers the negative case)
	bad := c.tb.Not(c.tb.Bin("bvult", i, n))
	c.obligation(fr, bad, "panic:index", "index out of range ("+what+")")
}

func (c *Ctx) toIdx(t *Term, typ types.Type) *Term {
	if t.s.W == 64 {
		return t
	}
	if isSigned(typ) {
		return c.tb.SExt(t, 64)
	}
	return c.tb.ZExt(t, 64)
}

func (c *Ctx) index(fr *Frame, in *ssa.Index) Value {
	x := c.get(fr, in.X)
	i := c.toIdx(c.get(fr, in.Index).(*Term), in.Index.Type())
	switch x := x.(type) {
	case Str:
		c.boundsCheck(fr, i, c.strLen(x), "string")
		if i.isC {
			if x.b == nil {
				return c.byteConst(x.c[i.cval])
			}
			if i.cval >= uint64(len(x.b)) {
				// beyond the physical size: the bounds obligation above has made this point infeasible
				if c.merging > 0 {
					return c.byteConst(0)
				}
				panic(pathEnd{"index beyond physical string size"})
			}
			return x.b[i.cval]
		}
		bs := c.strBytes(x)
		if len(bs) == 0 {
			if c.merging > 0 {
				return c.byteConst(0)
			}
			panic(pathEnd{"index into empty string"})
		}
		return c.iteChain(i, bs)
	case Agg:
		c.boundsCheck(fr, i, c.tb.Int(int64(len(x)), 64), "array")
		if i.isC {
			return copyVal(x[i.cval])
		}
		if len(x) == 0 {
			panic(pathEnd{"index into empty array"})
		}
		if _, ok := x[0].(*Term); ok {
			ts := make([]*Term, len(x))
			for k := range x {
				ts[k] = x[k].(*Term)
			}
			return c.iteChain(i, ts)
		}
		k := c.concretize(fr, i, "array value index")
		return copyVal(x[k])
	}
	panic(unsupported(fmt.Sprintf("index on %T", x)))
}

func (c *Ctx) iteChain(i *Term, ts []*Term) *Term {
	cur := ts[len(ts)-1]
	for k := len(ts) - 2; k >= 0; k-- {
		cur = c.tb.Ite(c.tb.Eq(i, c.tb.Int(int64(k), 64)), ts[k], cur)
	}
	return cur
}

func (c *Ctx) indexAddr(fr *Frame, in *ssa.IndexAddr) Value {
	x := c.get(fr, in.X)
	i := c.toIdx(c.get(fr, in.Index).(*Term), in.Index.Type())
	switch x := x.(type) {
	case Slice:
		c.boundsCheck(fr, i, x.n, "slice")
		if x.arr == nil {
			panic(pathEnd{"index into nil slice"})
		}
		if i.isC {
			if int(i.cval) >= x.cap {
				return c.oobPtr(x.arr.elems, x.off)
			}
			return Ptr{p: &x.arr.elems[x.off+int(i.cval)]}
		}
		n := x.cap
		if x.n.isC {
			n = int(x.n.cval)
		}
		return Ptr{arr: x.arr, off: x.off, idx: i, n: n}
	case Ptr: // pointer to array
		x = c.concPtr(fr, x, "array index")
		agg := (*x.p).(Agg)
		c.boundsCheck(fr, i, c.tb.Int(int64(len(agg)), 64), "array")
		if i.isC {
			if i.cval >= uint64(len(agg)) {
				return c.oobPtr(agg, 0)
			}
			return Ptr{p: &agg[i.cval]}
		}
		return Ptr{arr: &Array{elems: agg}, off: 0, idx: i, n: len(agg)}
	}
	panic(unsupported(fmt.Sprintf("indexaddr on %T", x)))
}

func (c *Ctx) sliceOp(fr *Frame, in *ssa.Slice) Value {
	x := c.get(fr, in.X)
	var lo, hi, max *Term
	if in.Low != nil {
		lo = c.toIdx(c.get(fr, in.Low).(*Term), in.Low.Type())
	} else {
		lo = c.tb.Int(0, 64)
	}
	if in.High != nil {
		hi = c.toIdx(c.get(fr, in.High).(*Term), in.High.Type())
	}
	if in.Max != nil {
		max = c.toIdx(c.get(fr, in.Max).(*Term), in.Max.Type())
	}
	tb := c.tb
	switch x := x.(type) {
	case Str:
		n := c.strLen(x)
		if hi == nil {
			hi = n
		}
		bad := tb.Or(tb.Not(tb.Bin("bvule", hi, n)), tb.Not(tb.Bin("bvule", lo, hi)))
		c.obligation(fr, bad, "panic:slice-bounds", "slice bounds out of range (string)")
		l := int(c.concretize(fr, lo, "string slice low bound"))
		if x.b == nil {
			if hi.isC {
				return mkStr(x.c[l:hi.cval])
			}
			bs := c.strBytes(x)
			return Str{b: bs[l:], n: tb.Bin("bvsub", hi, lo)}
		}
		if l > len(x.b) {
			panic(pathEnd{"slice beyond physical"})
		}
		if hi.isC {
			h := int(hi.cval)
			if h > len(x.b) {
				panic(pathEnd{"slice beyond physical"})
			}
			return c.normStr(Str{b: x.b[l:h], n: tb.Int(int64(h-l), 64)})
		}
		return Str{b: x.b[l:], n: tb.Bin("bvsub", hi, tb.Int(int64(l), 64))}
	case Slice:
		capT := tb.Int(int64(x.cap), 64)
		if hi == nil {
			hi = x.n
		}
		if max == nil {
			max = capT
		}
		bad := tb.Or(tb.Or(tb.Not(tb.Bin("bvule", max, capT)), tb.Not(tb.Bin("bvule", hi, max))), tb.Not(tb.Bin("bvule", lo, hi)))
		c.obligation(fr, bad, "panic:slice-bounds", "slice bounds out of range (slice)")
		l := int(c.concretize(fr, lo, "slice low bound"))
		m := int(c.concretize(fr, max, "slice max"))
		if x.arr == nil {
			return Slice{n: tb.Int(0, 64)}
		}
		return Slice{arr: x.arr, off: x.off + l, n: tb.Bin("bvsub", hi, tb.Int(int64(l), 64)), cap: m - l}
	case Ptr: // *array
		x = c.concPtr(fr, x, "slice of array")
		agg := (*x.p).(Agg)
		capT := tb.Int(int64(len(agg)), 64)
		if hi == nil {
			hi = capT
		}
		if max == nil {
			max = capT
		}
		bad := tb.Or(tb.Or(tb.Not(tb.Bin("bvule", max, capT)), tb.Not(tb.Bin("bvule", hi, max))), tb.Not(tb.Bin("bvule", lo, hi)))
		c.obligation(fr, bad, "panic:slice-bounds", "slice bounds out of range (array)")
		l := int(c.concretize(fr, lo, "slice low bound"))
		m := int(c.concretize(fr, max, "slice max"))
		return Slice{arr: &Array{elems: agg}, off: l, n: tb.Bin("bvsub", hi, tb.Int(int64(l), 64)), cap: m - l}
	}
	panic(unsupported(fmt.Sprintf("slice of %T", x)))
}

func (c *Ctx) makeSlice(fr *Frame, t types.Type, n, cp *Term) Value {
	tb := c.tb
	n, cp = c.tb.ZExt(n, 64), c.tb.ZExt(cp, 64)
	elem := t.Underlying().(*types.Slice).Elem()
	esz := c.w.sizes.Sizeof(elem)
	if esz == 0 {
		esz = 1
	}
	// Go panics when len < 0, len > cap or the byte size exceeds the address space.
	limit := tb.Const(uint64((1<<47)/esz), S64)
	bad := tb.Or(tb.Not(tb.Bin("bvule", n, cp)), tb.Not(tb.Bin("bvule", cp, limit)))
	c.obligation(fr, bad, "panic:makeslice", "makeslice: len out of range")
	c.allocHook(fr, cp, esz)
	phys := 0
	if cp.isC {
		phys = int(cp.cval)
		if phys > c.w.cfg.MaxConcreteAlloc {
			c.incomplete(fmt.Sprintf("allocation of %d elements exceeds engine bound %d", phys, c.w.cfg.MaxConcreteAlloc))
			panic(pathEnd{"alloc too large"})
		}
	} else {
		// symbolic size: follow only sizes up to the harness bound (stated cut)
		phys = c.w.cfg.MaxSymAlloc
		c.assume(fr, tb.Bin("bvule", cp, tb.Int(int64(phys), 64)), "allocation length within engine bound")
	}
	arr := &Array{elems: make([]Value, phys)}
	if phys > 0 {
		z := c.zero(elem)
		if _, isAgg := z.(Agg); isAgg {
			for i := range arr.elems {
				arr.elems[i] = c.zero(elem)
			}
		} else {
			for i := range arr.elems {
				arr.elems[i] = z
			}
		}
	}
	return Slice{arr: arr, off: 0, n: n, cap: phys}
}

// ---------------------------------------------------------------------------
// maps

func (c *Ctx) mapKey(fr *Frame, k Value) string {
	var sb strings.Builder
	c.writeKey(fr, &sb, k)
	return sb.String()
}

func (c *Ctx) writeKey(fr *Frame, sb *strings.Builder, k Value) {
	switch k := k.(type) {
	case *Term:
		if !k.isC {
			v := c.concretize(fr, k, "map key")
			fmt.Fprintf(sb, "i%d;", v)
			return
		}
		fmt.Fprintf(sb, "i%d;", k.cval)
	case Str:
		k = c.normStr(k)
		if k.b != nil {
			k = c.concretizeStr(fr, k, "map key")
		}
		fmt.Fprintf(sb, "s%d:%s;", len(k.c), k.c)
	case Ptr:
		if k.arr != nil {
			k = c.concPtr(fr, k, "map key")
		}
		fmt.Fprintf(sb, "p%p;", k.p)
	case Iface:
		if k.t == nil {
			sb.WriteString("nil;")
			return
		}
		sb.WriteString("I" + k.t.String() + ":")
		c.writeKey(fr, sb, k.v)
	case Agg:
		sb.WriteString("{")
		for _, e := range k {
			c.writeKey(fr, sb, e)
		}
		sb.WriteString("}")
	case *Chan:
		fmt.Fprintf(sb, "c%p;", k)
	case nil:
		sb.WriteString("nil;")
	default:
		panic(unsupported(fmt.Sprintf("map key %T", k)))
	}
}

// concreteKeyVal rebuilds a key value with its symbolic scalars replaced by the concretised ones.
func (c *Ctx) concreteKeyVal(fr *Frame, k Value) Value {
	switch k := k.(type) {
	case *Term:
		if !k.isC {
			return c.tb.Const(c.concretize(fr, k, "map key"), k.s)
		}
	case Str:
		k = c.normStr(k)
		if k.b != nil {
			return c.concretizeStr(fr, k, "map key")
		}
		return k
	case Agg:
		n := make(Agg, len(k))
		for i := range k {
			n[i] = c.concreteKeyVal(fr, k[i])
		}
		return n
	case Iface:
		if k.t != nil {
			return Iface{t: k.t, v: c.concreteKeyVal(fr, k.v)}
		}
	}
	return k
}

// mapFind returns the index of the entry with key k, or -1. Keys that contain symbolic parts are
// compared entry by entry with a decision per comparison (no case split over byte values).
func (c *Ctx) mapFind(fr *Frame, m *Map, k Value) int {
	if m == nil {
		return -1
	}
	if !m.symKeys && !c.symbolicVal(k, 0) {
		if i, ok := m.index[c.mapKey(fr, k)]; ok {
			return i
		}
		return -1
	}
	for i, e := range m.entries {
		if e.deleted {
			continue
		}
		eq := c.valEq(fr, e.k, k)
		if c.branch(eq, fr) {
			return i
		}
	}
	return -1
}

func (c *Ctx) mapGet(fr *Frame, m *Map, k Value) (Value, bool) {
	i := c.mapFind(fr, m, k)
	if i < 0 {
		return nil, false
	}
	return m.entries[i].v, true
}

func (c *Ctx) mapSet(fr *Frame, m *Map, k, v Value) {
	if i := c.mapFind(fr, m, k); i >= 0 {
		e := m.entries[i]
		if c.initMode == 0 {
			c.undo = append(c.undo, undoRec{me: e, old: e.v})
		}
		e.v = v
		return
	}
	sym := c.symbolicVal(k, 0)
	key := ""
	if sym {
		m.symSeq++
		key = fmt.Sprintf("~sym%d", m.symSeq)
		if !m.symKeys {
			m.symKeys = true
			if c.initMode == 0 {
				c.undo = append(c.undo, undoRec{m: m, symFlag: true})
			}
		}
	} else {
		key = c.mapKey(fr, k)
	}
	e := &mapEntry{k: k, v: v}
	m.entries = append(m.entries, e)
	m.index[key] = len(m.entries) - 1
	m.live++
	if c.initMode == 0 {
		c.undo = append(c.undo, undoRec{m: m, key: key, added: true})
	}
}

func (c *Ctx) mapDelete(fr *Frame, m *Map, k Value) {
	i := c.mapFind(fr, m, k)
	if i < 0 {
		return
	}
	e := m.entries[i]
	key := ""
	for kk, idx := range m.index {
		if idx == i {
			key = kk
		}
	}
	e.deleted = true
	delete(m.index, key)
	m.live--
	if c.initMode == 0 {
		c.undo = append(c.undo, undoRec{m: m, key: key, me: e, idx: i, deletedRec: true})
	}
}

func (c *Ctx) lookup(fr *Frame, in *ssa.Lookup) Value {
	x := c.get(fr, in.X)
	if s, ok := x.(Str); ok { // string index (older SSA form)
		i := c.toIdx(c.get(fr, in.Index).(*Term), in.Index.Type())
		c.boundsCheck(fr, i, c.strLen(s), "string")
		bs := c.strBytes(s)
		if i.isC {
			return bs[i.cval]
		}
		return c.iteChain(i, bs)
	}
	m := x.(*Map)
	if m != nil && c.raceEnabled(fr) {
		c.raceAccess(fr, m, false)
	}
	if ks, isStr := c.get(fr, in.Index).(Str); isStr && m != nil && !m.symKeys {
		if ks = c.normStr(ks); ks.b != nil {
			if v, okT, done := c.mergedStrLookup(m, ks, c.zero(in.X.Type().Underlying().(*types.Map).Elem())); done {
				if in.CommaOk {
					return Tuple{v, okT}
				}
				return v
			}
		}
	}
	v, ok := c.mapGet(fr, m, c.get(fr, in.Index))
	if !ok {
		v = c.zero(in.X.Type().Underlying().(*types.Map).Elem())
	}
	if in.CommaOk {
		return Tuple{copyVal(v), c.tb.Bool(ok)}
	}
	return copyVal(v)
}

// mergedStrLookup: m[k] for a string key with symbolic bytes in a map whose keys are concrete strings
// and whose values are scalars: one ite chain over the entries (no fork per entry, no case split
// over the key's byte values). done=false when the map does not have that shape.
func (c *Ctx) mergedStrLookup(m *Map, k Str, zero Value) (Value, *Term, bool) {
	z, okZ := zero.(*Term)
	if !okZ {
		return nil, nil, false
	}
	for _, e := range m.entries {
		if e.deleted {
			continue
		}
		ek, isStr := e.k.(Str)
		if !isStr || ek.b != nil {
			return nil, nil, false
		}
		if _, isT := e.v.(*Term); !isT {
			return nil, nil, false
		}
	}
	tb := c.tb
	kb, kn := c.strBytes(k), c.strLen(k)
	cur, found := z, tb.Bool(false)
	for i := len(m.entries) - 1; i >= 0; i-- {
		e := m.entries[i]
		if e.deleted {
			continue
		}
		ek := e.k.(Str).c
		if len(ek) > len(kb) {
			continue
		}
		eq := tb.Eq(kn, tb.Int(int64(len(ek)), 64))
		for j := 0; j < len(ek) && !eq.IsFalse(); j++ {
			eq = tb.And(eq, tb.Eq(kb[j], c.byteConst(ek[j])))
		}
		if eq.IsFalse() {
			continue
		}
		cur = tb.Ite(eq, e.v.(*Term), cur)
		found = tb.Or(found, eq)
	}
	return cur, found, true
}

type rangeIter struct {
	dist []*Term // merged mode: dist[k] = "the iterator stands at byte offset k"
	m    *Map
	i    int
	s    Str
	pos  int
	isSt bool
	snap []*mapEntry
}

func (c *Ctx) rangeInit(fr *Frame, in *ssa.Range) Value {
	x := c.get(fr, in.X)
	switch x := x.(type) {
	case *Map:
		it := &rangeIter{m: x}
		if x != nil && c.raceEnabled(fr) {
			c.raceAccess(fr, x, false)
		}
		if x != nil {
			it.snap = append(it.snap, x.entries...)
		}
		return it
	case Str:
		x = c.normStr(x)
		if x.b != nil && c.merging > 0 {
			it := &rangeIter{s: x, isSt: true, dist: make([]*Term, len(x.b)+1)}
			for k := range it.dist {
				it.dist[k] = c.tb.Bool(k == 0)
			}
			return it
		}
		if x.b != nil {
			x = c.concretizeStrLen(fr, x)
		}
		return &rangeIter{s: x, isSt: true}
	}
	panic(unsupported(fmt.Sprintf("range over %T", x)))
}

func (c *Ctx) next(fr *Frame, in *ssa.Next) Value {
	it := c.get(fr, in.Iter).(*rangeIter)
	tb := c.tb
	if it.isSt && it.dist != nil {
		return c.nextMergedStr(fr, it)
	}
	if it.isSt {
		if it.s.b == nil {
			if it.pos >= len(it.s.c) {
				return Tuple{tb.Bool(false), tb.Int(0, 64), tb.Int(0, 32)}
			}
			r, sz := decodeRune(it.s.c[it.pos:])
			res := Tuple{tb.Bool(true), tb.Int(int64(it.pos), 64), tb.Int(int64(r), 32)}
			it.pos += sz
			return res
		}
		// symbolic bytes, concrete length: decode through the real utf8 code
		n := int(it.s.n.cval)
		if it.pos >= n {
			return Tuple{tb.Bool(false), tb.Int(0, 64), tb.Int(0, 32)}
		}
		dec := c.w.findFunc("unicode/utf8", "DecodeRuneInString")
		rest := Str{b: it.s.b[it.pos:n], n: tb.Int(int64(n-it.pos), 64)}
		r := c.call(fr, dec, []Value{c.normStr(rest)}, nil).(Tuple)
		sz := c.concretize(fr, r[1].(*Term), "rune size")
		res := Tuple{tb.Bool(true), tb.Int(int64(it.pos), 64), r[0]}
		it.pos += int(sz)
		return res
	}
	// map
	for it.i < len(it.snap) {
		e := it.snap[it.i]
		it.i++
		if e.deleted {
			continue
		}
		// entry may have been deleted and re-added: use current value if present
		return Tuple{tb.Bool(true), e.k, copyVal(e.v)}
	}
	kt := in.Type().(*types.Tuple)
	return Tuple{tb.Bool(false), c.zero(kt.At(1).Type()), c.zero(kt.At(2).Type())}
}

func decodeRune(s string) (rune, int) {
	for _, r := range s {
		if r == 0xFFFD {
			// could be a real U+FFFD (3 bytes) or an invalid byte (1)
			if len(s) >= 3 && s[0] == 0xEF && s[1] == 0xBF && s[2] == 0xBD {
				return r, 3
			}
			return r, 1
		}
		return r, len(string(r))
	}
	return 0, 0
}

// nextMergedStr advances a string iterator in merged mode. The byte offset is a
// distribution of guards over concrete offsets; the rune at each offset is decoded by
// the real utf8.DecodeRuneInString evaluated in merged mode.
func (c *Ctx) nextMergedStr(fr *Frame, it *rangeIter) Value {
	tb := c.tb
	L := len(it.s.b)
	dec := c.w.findFunc("unicode/utf8", "DecodeRuneInString")
	ok := tb.Bool(false)
	idx := tb.Int(0, 64)
	var rn *Term = tb.Int(0, 32)
	nd := make([]*Term, L+1)
	for k := range nd {
		nd[k] = tb.Bool(false)
	}
	outer := c.guard
	for k := L - 1; k >= 0; k-- {
		g := it.dist[k]
		if g.IsFalse() {
			continue
		}
		in := tb.And(g, tb.Bin("bvult", tb.Int(int64(k), 64), it.s.n))
		if in.IsFalse() {
			continue
		}
		sub := Str{b: it.s.b[k:], n: tb.Bin("bvsub", it.s.n, tb.Int(int64(k), 64))}
		if outer != nil {
			c.guard = tb.And(outer, in)
		} else {
			c.guard = in
		}
		_ = dec
		rv, sz := c.utf8Decode(sub.b, sub.n)
		c.guard = outer
		ok = tb.Or(ok, in)
		idx = tb.Ite(in, tb.Int(int64(k), 64), idx)
		rn = tb.Ite(in, rv, rn)
		for d := 1; d <= 4 && k+d <= L; d++ {
			nd[k+d] = tb.Or(nd[k+d], tb.And(in, tb.Eq(sz, tb.Int(int64(d), 64))))
		}
	}
	it.dist = nd
	return Tuple{ok, idx, rn}
}

func aggOfTerms(v Value) bool {
	a, ok := v.(Agg)
	if !ok {
		return false
	}
	for _, e := range a {
		switch e := e.(type) {
		case *Term:
		case Agg:
			if !aggOfTerms(e) {
				return false
			}
		default:
			return false
		}
	}
	return true
}

// oobPtr: a constant index beyond the physical size. The bounds obligation just emitted has made
// this point infeasible; merged evaluation continues on a scratch cell, a real path ends.
func (c *Ctx) oobPtr(elems []Value, off int) Ptr {
	if c.merging == 0 {
		panic(pathEnd{"index beyond physical size"})
	}
	cell := new(Value)
	if off < len(elems) {
		*cell = copyVal(elems[off])
	} else {
		*cell = c.tb.Const(0, S8)
	}
	return Ptr{p: cell}
}
