package main

// Merged (guarded, CBMC-style) evaluation of side-effect-free functions: every block is
// executed once per loop unrolling under a guard, φ-nodes become ite terms, potential
// panics become guarded obligations, and the call returns one merged value. This keeps
// byte-classifying loops (validators, UTF-8 checks) from multiplying paths. If the
// evaluation meets anything it cannot merge it aborts (there are no side effects to
// undo) and the caller falls back to ordinary path exploration of the same call.

import (
	"fmt"
	"go/types"
	"sort"

	"golang.org/x/tools/go/ssa"
)

type loopInfo struct {
	header *ssa.BasicBlock
	body   map[*ssa.BasicBlock]bool
	parent *loopInfo
}

func (w *World) loopsOf(fn *ssa.Function) []*loopInfo {
	fi := w.info(fn)
	w.infoMu.Lock()
	defer w.infoMu.Unlock()
	if fi.loopsDone {
		return fi.loops
	}
	byHeader := map[*ssa.BasicBlock]*loopInfo{}
	for _, b := range fn.Blocks {
		for _, s := range b.Succs {
			if s.Dominates(b) {
				l := byHeader[s]
				if l == nil {
					l = &loopInfo{header: s, body: map[*ssa.BasicBlock]bool{s: true}}
					byHeader[s] = l
				}
				stack := []*ssa.BasicBlock{b}
				for len(stack) > 0 {
					n := stack[len(stack)-1]
					stack = stack[:len(stack)-1]
					if l.body[n] {
						continue
					}
					l.body[n] = true
					stack = append(stack, n.Preds...)
				}
			}
		}
	}
	var ls []*loopInfo
	for _, l := range byHeader {
		ls = append(ls, l)
	}
	sort.Slice(ls, func(i, j int) bool {
		if len(ls[i].body) != len(ls[j].body) {
			return len(ls[i].body) < len(ls[j].body)
		}
		return ls[i].header.Index < ls[j].header.Index
	})
	for i, l := range ls {
		for _, m := range ls[i+1:] {
			if m.body[l.header] && m != l {
				l.parent = m
				break
			}
		}
	}
	fi.loops, fi.loopsDone = ls, true
	return ls
}

// mergeCandidate: static filter. The function (and its static callees) contains no
// instruction with a side effect on shared state.
func (c *Ctx) mergeCandidate(fn *ssa.Function) bool {
	name := fnName(fn)
	if c.w.noMerge[name] {
		return false
	}
	return c.w.mergeable(fn, map[*ssa.Function]bool{})
}

func (w *World) mergeable(fn *ssa.Function, inProgress map[*ssa.Function]bool) bool {
	fi := w.info(fn)
	w.infoMu.Lock()
	m := fi.mergeable
	w.infoMu.Unlock()
	if m != 0 {
		return m == 1
	}
	if inProgress[fn] {
		return false
	}
	inProgress[fn] = true
	ok := w.mergeable0(fn, inProgress)
	delete(inProgress, fn)
	w.infoMu.Lock()
	if ok {
		fi.mergeable = 1
	} else {
		fi.mergeable = 2
	}
	w.infoMu.Unlock()
	return ok
}

func (w *World) mergeable0(fn *ssa.Function, inProgress map[*ssa.Function]bool) bool {
	name := fnName(fn)
	if w.forceMerge[name] {
		return true
	}
	if _, ok := w.replacements[name]; ok {
		return false
	}
	if _, ok := intrinsics[name]; ok {
		return pureIntrinsics[name]
	}
	if fn.Blocks == nil {
		return false
	}
	if len(fn.Blocks) > 400 {
		return false
	}
	for _, b := range fn.Blocks {
		for _, in := range b.Instrs {
			switch in := in.(type) {
			case *ssa.MapUpdate, *ssa.Send, *ssa.Go, *ssa.Defer, *ssa.Select, *ssa.MakeChan,
				*ssa.MakeMap, *ssa.RunDefers, *ssa.MakeClosure:
				return false
			case *ssa.Range:
				if !isStringType(in.X.Type()) {
					return false
				}
			case *ssa.UnOp:
				if in.Op.String() == "<-" {
					return false
				}
			case *ssa.Call:
				switch callee := in.Call.Value.(type) {
				case *ssa.Builtin:
					switch callee.Name() {
					case "len", "cap", "min", "max", "ssa:wrapnilchk":
					default:
						return false
					}
				case *ssa.Function:
					if len(callee.Name()) >= 5 && callee.Name()[:5] == "verif" {
						return false
					}
					if !w.mergeable(callee, inProgress) {
						return false
					}
				default:
					return false
				}
			}
		}
	}
	return true
}

type mstate struct {
	guard *Term
	regs  []Value
	edge  *ssa.BasicBlock
}

type mret struct {
	guard *Term
	val   Value
}

type mframe struct {
	fr    *Frame
	loops []*loopInfo
	rets  []mret
	c     *Ctx
}

func (c *Ctx) tryMerged(caller *Frame, fn *ssa.Function, args []Value, env []Value) (res Value, ok bool) {
	saveGuard, saveDepth := c.guard, c.depth
	mark := len(c.undo)
	defer func() {
		c.merging--
		c.guard, c.depth = saveGuard, saveDepth
		if r := recover(); r != nil {
			if ma, isAbort := r.(mergeAbort); isAbort {
				c.rollbackTo(mark) // guarded stores made so far are undone
				c.w.mu.Lock()
				c.w.stats.MergeAborts++
				if len(c.w.mergeAbortWhy) < 40 {
					c.w.mergeAbortWhy[fn.String()+": "+ma.why]++
				}
				c.w.mu.Unlock()
				// remember so we do not try again
				fi := c.w.info(fn)
				c.w.infoMu.Lock()
				fi.mergeable = 2
				c.w.infoMu.Unlock()
				res, ok = nil, false
				return
			}
			panic(r)
		}
	}()
	c.merging++
	c.guard = nil
	r := c.callMerged(caller, fn, args, env)
	c.w.mu.Lock()
	c.w.stats.Merged++
	c.w.mu.Unlock()
	return r, true
}

func (c *Ctx) callMerged(caller *Frame, fn *ssa.Function, args []Value, env []Value) Value {
	if fn.Blocks == nil {
		panic(mergeAbort{"external " + fn.String()})
	}
	c.depth++
	if c.depth > c.w.cfg.MaxDepth {
		panic(mergeAbort{"depth"})
	}
	defer func() { c.depth-- }()
	c.noteFn(fn)
	fr := c.newFrame(caller, fn, args, env)
	mf := &mframe{fr: fr, loops: c.w.loopsOf(fn), c: c}
	g := c.guard
	if g == nil {
		g = c.tb.Bool(true)
	}
	saveGuard := c.guard
	st := &mstate{guard: g, regs: fr.regs}
	mf.run(nil, map[*ssa.BasicBlock][]*mstate{fn.Blocks[0]: {st}})
	c.guard = saveGuard
	if len(mf.rets) == 0 {
		if saveGuard == nil {
			panic(pathEnd{"no return from merged call (every path panics)"})
		}
		panic(mergeAbort{"no return tokens under a guard"})
	}
	cur := mf.rets[len(mf.rets)-1].val
	for i := len(mf.rets) - 2; i >= 0; i-- {
		cur = c.iteVal(mf.rets[i].guard, mf.rets[i].val, cur)
	}
	return cur
}

func (mf *mframe) childOf(b *ssa.BasicBlock, in *loopInfo) *loopInfo {
	for _, l := range mf.loops { // sorted small → large: pick the outermost loop strictly inside `in` containing b
		if l.body[b] && l != in && l.parent == in {
			return l
		}
	}
	return nil
}

func (mf *mframe) run(in *loopInfo, pending map[*ssa.BasicBlock][]*mstate) (back []*mstate, exits map[*ssa.BasicBlock][]*mstate) {
	c := mf.c
	exits = map[*ssa.BasicBlock][]*mstate{}
	inRegion := func(b *ssa.BasicBlock) bool { return in == nil || in.body[b] }
	var order []*ssa.BasicBlock
	seen := map[*ssa.BasicBlock]bool{}
	var dfs func(b *ssa.BasicBlock)
	dfs = func(b *ssa.BasicBlock) {
		if seen[b] || !inRegion(b) {
			return
		}
		seen[b] = true
		for _, s := range b.Succs {
			if s.Dominates(b) {
				continue
			}
			dfs(s)
		}
		order = append(order, b)
	}
	start := mf.fr.fn.Blocks[0]
	if in != nil {
		start = in.header
	}
	dfs(start)
	for i, j := 0, len(order)-1; i < j; i, j = i+1, j-1 {
		order[i], order[j] = order[j], order[i]
	}
	doneLoop := map[*loopInfo]bool{}
	deliver := func(from, to *ssa.BasicBlock, st *mstate) {
		st.edge = from
		if st.guard.IsFalse() {
			return
		}
		if in != nil && to == in.header {
			back = append(back, st)
		} else if !inRegion(to) {
			exits[to] = append(exits[to], st)
		} else {
			pending[to] = append(pending[to], st)
		}
	}
	for _, b := range order {
		if l := mf.childOf(b, in); l != nil {
			if doneLoop[l] || b != l.header {
				continue
			}
			doneLoop[l] = true
			toks := pending[l.header]
			for it := 0; len(toks) > 0; it++ {
				if it >= c.w.cfg.Unwind {
					g := c.tb.Bool(false)
					for _, t := range toks {
						g = c.tb.Or(g, t.guard)
					}
					if r := c.checkSat(g); r != "unsat" {
						panic(mergeAbort{fmt.Sprintf("unwinding bound %d reached in %s", c.w.cfg.Unwind, mf.fr.fn)})
					}
					break
				}
				bk, ex := mf.run(l, map[*ssa.BasicBlock][]*mstate{l.header: toks})
				for to, sts := range ex {
					for _, st := range sts {
						deliver(st.edge, to, st)
					}
				}
				g := c.tb.Bool(false)
				for _, t := range bk {
					g = c.tb.Or(g, t.guard)
				}
				if g.IsFalse() {
					break
				}
				if it%8 == 7 {
					if r := c.checkSat(g); r == "unsat" {
						break
					}
				}
				toks = bk
			}
			continue
		}
		st := mf.merge(pending[b], b)
		if st == nil {
			continue
		}
		mf.block(b, st, deliver)
	}
	return
}

func (mf *mframe) merge(toks []*mstate, blk *ssa.BasicBlock) *mstate {
	c := mf.c
	if len(toks) == 0 {
		return nil
	}
	// phis evaluated per token
	nphi := 0
	for _, in := range blk.Instrs {
		if _, ok := in.(*ssa.Phi); !ok {
			break
		}
		nphi++
	}
	phiVals := make([][]Value, len(toks))
	for ti, t := range toks {
		if nphi == 0 {
			break
		}
		idx := -1
		for j, p := range blk.Preds {
			if p == t.edge {
				idx = j
			}
		}
		if idx < 0 {
			panic(mergeAbort{"phi edge not found"})
		}
		mf.fr.regs = t.regs
		vals := make([]Value, nphi)
		for k := 0; k < nphi; k++ {
			vals[k] = c.get(mf.fr, blk.Instrs[k].(*ssa.Phi).Edges[idx])
		}
		phiVals[ti] = vals
	}
	var out *mstate
	if len(toks) == 1 {
		out = &mstate{guard: toks[0].guard, regs: toks[0].regs}
	} else {
		g := c.tb.Bool(false)
		for _, t := range toks {
			g = c.tb.Or(g, t.guard)
		}
		regs := make([]Value, len(toks[0].regs))
		last := toks[len(toks)-1]
		copy(regs, last.regs)
		for i := len(toks) - 2; i >= 0; i-- {
			t := toks[i]
			for r := range regs {
				a, b := t.regs[r], regs[r]
				if a == nil {
					continue
				}
				if b == nil {
					regs[r] = a
					continue
				}
				if identicalVal(a, b) {
					continue
				}
				regs[r] = c.iteVal(t.guard, a, b)
			}
		}
		out = &mstate{guard: g, regs: regs}
	}
	for k := 0; k < nphi; k++ {
		cur := phiVals[len(toks)-1][k]
		for i := len(toks) - 2; i >= 0; i-- {
			cur = c.iteVal(toks[i].guard, phiVals[i][k], cur)
		}
		if len(toks) == 1 {
			// need a private register file before writing
		}
		out.regs = cloneRegsOnce(out, toks)
		out.regs[mf.fr.info.idx[blk.Instrs[k].(*ssa.Phi)]] = cur
	}
	return out
}

func cloneRegsOnce(out *mstate, toks []*mstate) []Value {
	if len(toks) == 1 && &out.regs[0] == &toks[0].regs[0] {
		n := make([]Value, len(out.regs))
		copy(n, out.regs)
		return n
	}
	return out.regs
}

func identicalVal(a, b Value) bool {
	switch x := a.(type) {
	case *Term:
		y, ok := b.(*Term)
		return ok && same(x, y)
	case Str:
		y, ok := b.(Str)
		if !ok {
			return false
		}
		if x.b == nil && y.b == nil {
			return x.c == y.c
		}
		if x.b == nil || y.b == nil {
			return false
		}
		return len(x.b) == len(y.b) && (len(x.b) == 0 || &x.b[0] == &y.b[0]) && same(x.n, y.n)
	case Ptr:
		y, ok := b.(Ptr)
		return ok && x.p == y.p && x.arr == y.arr && x.off == y.off && x.idx == y.idx
	case Slice:
		y, ok := b.(Slice)
		return ok && x.arr == y.arr && x.off == y.off && x.cap == y.cap && same(x.n, y.n)
	case Agg:
		y, ok := b.(Agg)
		if !ok || len(x) != len(y) {
			return false
		}
		if len(x) == 0 || &x[0] == &y[0] {
			return true
		}
		for i := range x {
			if !identicalVal(x[i], y[i]) {
				return false
			}
		}
		return true
	case Tuple:
		y, ok := b.(Tuple)
		if !ok || len(x) != len(y) {
			return false
		}
		for i := range x {
			if !identicalVal(x[i], y[i]) {
				return false
			}
		}
		return true
	case Iface:
		y, ok := b.(Iface)
		if !ok {
			return false
		}
		if x.t == nil || y.t == nil {
			return x.t == nil && y.t == nil
		}
		return types.Identical(x.t, y.t) && identicalVal(x.v, y.v)
	case *Closure:
		y, ok := b.(*Closure)
		return ok && x == y
	case *Map:
		y, ok := b.(*Map)
		return ok && x == y
	case *Chan:
		y, ok := b.(*Chan)
		return ok && x == y
	case nil:
		return b == nil
	case *rangeIter:
		y, ok := b.(*rangeIter)
		return ok && x == y
	}
	return false
}

// iteVal builds ite(g, a, b) structurally.
func (c *Ctx) iteVal(g *Term, a, b Value) Value {
	if g.IsTrue() {
		return a
	}
	if g.IsFalse() {
		return b
	}
	if identicalVal(a, b) {
		return a
	}
	tb := c.tb
	switch x := a.(type) {
	case *Term:
		y, ok := b.(*Term)
		if !ok {
			panic(mergeAbort{"ite of term and non-term"})
		}
		return tb.Ite(g, x, y)
	case Str:
		y, ok := b.(Str)
		if !ok {
			panic(mergeAbort{"ite of string and non-string"})
		}
		xb, yb := c.strBytes(x), c.strBytes(y)
		n := max(len(xb), len(yb))
		out := Str{n: tb.Ite(g, c.strLen(x), c.strLen(y)), b: make([]*Term, n)}
		z := c.byteConst(0)
		for i := 0; i < n; i++ {
			xa, ya := z, z
			if i < len(xb) {
				xa = xb[i]
			}
			if i < len(yb) {
				ya = yb[i]
			}
			out.b[i] = tb.Ite(g, xa, ya)
		}
		if n == 0 {
			return Str{}
		}
		return out
	case Agg:
		y, ok := b.(Agg)
		if !ok || len(x) != len(y) {
			panic(mergeAbort{"ite of aggregates of different shape"})
		}
		out := make(Agg, len(x))
		for i := range x {
			out[i] = c.iteVal(g, x[i], y[i])
		}
		return out
	case Tuple:
		y, ok := b.(Tuple)
		if !ok || len(x) != len(y) {
			panic(mergeAbort{"ite of tuples of different shape"})
		}
		out := make(Tuple, len(x))
		for i := range x {
			out[i] = c.iteVal(g, x[i], y[i])
		}
		return out
	case Slice:
		y, ok := b.(Slice)
		if ok && x.arr == y.arr && x.off == y.off && x.cap == y.cap {
			return Slice{arr: x.arr, off: x.off, cap: x.cap, n: tb.Ite(g, x.n, y.n)}
		}
		panic(mergeAbort{"ite of different slices"})
	case Iface:
		y, ok := b.(Iface)
		if ok && x.t != nil && y.t != nil && types.Identical(x.t, y.t) {
			return Iface{t: x.t, v: c.iteVal(g, x.v, y.v)}
		}
		panic(mergeAbort{"ite of different interface values"})
	}
	panic(mergeAbort{fmt.Sprintf("ite of %T", a)})
}

func (mf *mframe) block(b *ssa.BasicBlock, st *mstate, deliver func(from, to *ssa.BasicBlock, st *mstate)) {
	c := mf.c
	fr := mf.fr
	// private register file for this block execution
	regs := make([]Value, len(st.regs))
	copy(regs, st.regs)
	fr.regs = regs
	guard := st.guard
	c.guard = guard
	for _, in := range b.Instrs {
		c.steps++
		if c.steps > c.w.cfg.MaxSteps {
			panic(mergeAbort{"step bound"})
		}
		switch x := in.(type) {
		case *ssa.Phi:
		case *ssa.If:
			cond := c.get(fr, x.Cond).(*Term)
			// obligations executed in this block may have strengthened the path condition; guard is unchanged
			g1, g2 := c.tb.And(guard, cond), c.tb.And(guard, c.tb.Not(cond))
			if v, ok := c.lookupKnown(cond); ok {
				if v {
					g1, g2 = guard, c.tb.Bool(false)
				} else {
					g1, g2 = c.tb.Bool(false), guard
				}
			}
			deliver(b, b.Succs[0], &mstate{guard: g1, regs: regs})
			deliver(b, b.Succs[1], &mstate{guard: g2, regs: regs})
		case *ssa.Jump:
			deliver(b, b.Succs[0], &mstate{guard: guard, regs: regs})
		case *ssa.Return:
			var res Value
			switch len(x.Results) {
			case 0:
			case 1:
				res = c.get(fr, x.Results[0])
			default:
				t := make(Tuple, len(x.Results))
				for i, r := range x.Results {
					t[i] = c.get(fr, r)
				}
				res = t
			}
			mf.rets = append(mf.rets, mret{guard, res})
		case *ssa.Panic:
			fr.pos = x.Pos()
			saved := c.guard
			c.guard = nil
			c.obligation(fr, guard, "panic:explicit", "explicit panic reachable")
			c.guard = saved
			return
		default:
			c.exec(fr, in)
			c.guard = guard
		}
	}
}
