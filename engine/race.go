package main

// Happens-before data-race detection on the explored schedules (scheduler mode, "race": true).
//
// Every goroutine carries a vector clock; go, unlock→lock, channel send→receive, close→receive,
// WaitGroup Done→Wait and timer arming→firing create happens-before edges. Every load/store of a
// memory cell and every read/write of a map performed by IMPLEMENTATION code (functions of the
// repository, not the harness) is checked against the last conflicting access: if that access is
// not ordered before the current one, the pair is an unsynchronised conflicting access — reported
// as a violation with both sites, on a schedule whose feasibility the solver has established.

import (
	"fmt"
	"strings"

	"golang.org/x/tools/go/ssa"
)

type vclock []int

func (v vclock) get(i int) int {
	if i < len(v) {
		return v[i]
	}
	return 0
}

func vcJoin(a, b vclock) vclock {
	n := max(len(a), len(b))
	out := make(vclock, n)
	for i := range out {
		out[i] = max(a.get(i), b.get(i))
	}
	return out
}

func vcCopy(a vclock) vclock { return append(vclock(nil), a...) }

type access struct {
	gid  int
	clk  int
	site string
}

type shadow struct {
	w     access
	hasW  bool
	reads []access
}

type raceState struct {
	cells map[any]*shadow
	seen  map[string]bool
}

func (s *Sched) vcOf(g *Goroutine) vclock {
	for len(g.vc) <= g.id {
		g.vc = append(g.vc, 0)
	}
	if g.vc[g.id] == 0 {
		g.vc[g.id] = 1
	}
	return g.vc
}

func (s *Sched) tick(g *Goroutine) {
	s.vcOf(g)
	g.vc[g.id]++
}

// release: publish g's clock into a synchronisation object's clock
func (s *Sched) release(g *Goroutine, into *vclock) {
	*into = vcJoin(*into, s.vcOf(g))
	s.tick(g)
}

// acquire: g learns everything published into the object
func (s *Sched) acquire(g *Goroutine, from vclock) {
	g.vc = vcJoin(s.vcOf(g), from)
}

func (c *Ctx) raceEnabled(fr *Frame) bool {
	if c.sched == nil || !c.w.cfg.Race || fr == nil || c.initMode > 0 {
		return false
	}
	return c.w.implFn(fr.fn)
}

// implFn: a function of the repository that is not part of the harness.
func (w *World) implFn(fn *ssa.Function) bool {
	fi := w.info(fn)
	w.infoMu.Lock()
	v := fi.pure
	w.infoMu.Unlock()
	if v != 0 {
		return v == 1
	}
	ok := w.isRepoFn(fn)
	if ok {
		name := fn.Name()
		if p := fn.Parent(); p != nil {
			for p.Parent() != nil {
				p = p.Parent()
			}
			name = p.Name()
		}
		if strings.HasPrefix(name, "vf") || strings.HasPrefix(name, "Verif") || strings.HasPrefix(name, "verif") || strings.HasPrefix(name, "newVf") {
			ok = false
		}
		if recv := fn.Signature.Recv(); recv != nil && strings.Contains(recv.Type().String(), ".vf") {
			ok = false
		}
	}
	w.infoMu.Lock()
	if ok {
		fi.pure = 1
	} else {
		fi.pure = 2
	}
	w.infoMu.Unlock()
	return ok
}

func (c *Ctx) raceSite(fr *Frame) string {
	pos := c.w.prog.Fset.Position(fr.pos)
	return fmt.Sprintf("%s [%s]", shortFn(fr.fn.String()), sourceLine(pos.Filename, pos.Line))
}

func (c *Ctx) raceAccess(fr *Frame, loc any, write bool) {
	s := c.sched
	if s.race == nil {
		s.race = &raceState{cells: map[any]*shadow{}, seen: map[string]bool{}}
	}
	g := s.cur
	vc := s.vcOf(g)
	sh := s.race.cells[loc]
	if sh == nil {
		sh = &shadow{}
		s.race.cells[loc] = sh
	}
	me := access{gid: g.id, clk: vc[g.id], site: c.raceSite(fr)}
	report := func(prev access, kind string) {
		key := kind + "|" + prev.site + "|" + me.site
		if s.race.seen[key] {
			return
		}
		s.race.seen[key] = true
		c.violation("race:"+kind, fr, fmt.Sprintf("unsynchronised conflicting accesses (%s): %s  <->  %s", kind, prev.site, me.site))
	}
	if sh.hasW && sh.w.gid != g.id && sh.w.clk > vc.get(sh.w.gid) {
		if write {
			report(sh.w, "write-write")
		} else {
			report(sh.w, "write-read")
		}
	}
	if write {
		for _, r := range sh.reads {
			if r.gid != g.id && r.clk > vc.get(r.gid) {
				report(r, "read-write")
			}
		}
		sh.w, sh.hasW, sh.reads = me, true, sh.reads[:0]
		return
	}
	for i, r := range sh.reads {
		if r.gid == g.id {
			sh.reads[i] = me
			return
		}
	}
	sh.reads = append(sh.reads, me)
}
