package main

// Direct formula model of utf8.DecodeRuneInString / DecodeRune / ValidString on symbolic
// bytes (the table-driven implementation turns every byte into a 256-way ite chain).
// Validated against the real functions by the engine self-test.

import (
	"unicode/utf8"

	"golang.org/x/tools/go/ssa"
)

func init() {
	intrinsics["unicode/utf8.DecodeRuneInString"] = inDecodeRuneInString
	intrinsics["unicode/utf8.DecodeRune"] = inDecodeRune
	intrinsics["unicode/utf8.ValidString"] = inValidString
	intrinsics["unicode/utf8.Valid"] = inValidBytes
	intrinsics["unicode/utf8.RuneCountInString"] = inRuneCountInString
	for _, n := range []string{"unicode/utf8.DecodeRuneInString", "unicode/utf8.ValidString", "unicode/utf8.RuneCountInString"} {
		pureIntrinsics[n] = true
	}
}

// utf8Decode: bs = bytes from the current offset (physical), n = number of bytes really
// available (BV64). Returns (rune BV32, size BV64); n == 0 gives (RuneError, 0).
func (c *Ctx) utf8Decode(bs []*Term, n *Term) (*Term, *Term) {
	tb := c.tb
	b := func(i int) *Term {
		if i < len(bs) {
			return bs[i]
		}
		return tb.Const(0, S8)
	}
	have := func(k int) *Term { // at least k bytes available
		if k > len(bs) {
			return tb.Bool(false)
		}
		return tb.Bin("bvule", tb.Int(int64(k), 64), n)
	}
	in := func(x *Term, lo, hi uint64) *Term {
		return tb.And(tb.Bin("bvule", tb.Const(lo, S8), x), tb.Bin("bvule", x, tb.Const(hi, S8)))
	}
	z := func(x *Term) *Term { return tb.ZExt(x, 32) }
	b0, b1, b2, b3 := b(0), b(1), b(2), b(3)
	cont := func(x *Term) *Term { return in(x, 0x80, 0xBF) }
	ascii := tb.Bin("bvult", b0, tb.Const(0x80, S8))
	two := tb.And(tb.And(in(b0, 0xC2, 0xDF), have(2)), cont(b1))
	b1ok3 := tb.Or(tb.Or(tb.And(tb.Eq(b0, tb.Const(0xE0, S8)), in(b1, 0xA0, 0xBF)),
		tb.And(tb.Eq(b0, tb.Const(0xED, S8)), in(b1, 0x80, 0x9F))),
		tb.And(tb.And(in(b0, 0xE1, 0xEF), tb.Not(tb.Eq(b0, tb.Const(0xED, S8)))), cont(b1)))
	three := tb.And(tb.And(have(3), b1ok3), cont(b2))
	b1ok4 := tb.Or(tb.Or(tb.And(tb.Eq(b0, tb.Const(0xF0, S8)), in(b1, 0x90, 0xBF)),
		tb.And(tb.Eq(b0, tb.Const(0xF4, S8)), in(b1, 0x80, 0x8F))),
		tb.And(in(b0, 0xF1, 0xF3), cont(b1)))
	four := tb.And(tb.And(tb.And(have(4), b1ok4), cont(b2)), cont(b3))
	m := func(x *Term, mask uint64) *Term { return tb.Bin("bvand", z(x), tb.Const(mask, S32)) }
	sh := func(x *Term, k uint64) *Term { return tb.Bin("bvshl", x, tb.Const(k, S32)) }
	or := func(xs ...*Term) *Term {
		cur := xs[0]
		for _, x := range xs[1:] {
			cur = tb.Bin("bvor", cur, x)
		}
		return cur
	}
	r2 := or(sh(m(b0, 0x1F), 6), m(b1, 0x3F))
	r3 := or(sh(m(b0, 0x0F), 12), sh(m(b1, 0x3F), 6), m(b2, 0x3F))
	r4 := or(sh(m(b0, 0x07), 18), sh(m(b1, 0x3F), 12), sh(m(b2, 0x3F), 6), m(b3, 0x3F))
	errR := tb.Const(utf8.RuneError, S32)
	empty := tb.Not(have(1))
	if len(bs) == 0 {
		return errR, tb.Int(0, 64)
	}
	r := tb.Ite(empty, errR, tb.Ite(ascii, z(b0), tb.Ite(two, r2, tb.Ite(three, r3, tb.Ite(four, r4, errR)))))
	size := tb.Ite(empty, tb.Int(0, 64), tb.Ite(ascii, tb.Int(1, 64), tb.Ite(two, tb.Int(2, 64), tb.Ite(three, tb.Int(3, 64), tb.Ite(four, tb.Int(4, 64), tb.Int(1, 64))))))
	return r, size
}

func inDecodeRuneInString(c *Ctx, fr *Frame, fn *ssa.Function, a []Value) Value {
	s := c.normStr(a[0].(Str))
	if s.b == nil {
		r, n := utf8.DecodeRuneInString(s.c)
		return Tuple{c.tb.Int(int64(r), 32), c.tb.Int(int64(n), 64)}
	}
	r, n := c.utf8Decode(s.b, s.n)
	return Tuple{r, n}
}

func inDecodeRune(c *Ctx, fr *Frame, fn *ssa.Function, a []Value) Value {
	bs, n := c.sliceBytes(a[0].(Slice))
	r, sz := c.utf8Decode(bs, n)
	return Tuple{r, sz}
}

// validUTF8: every position reached by stepping from 0 decodes without error.
func (c *Ctx) validUTF8(bs []*Term, n *Term) *Term {
	tb := c.tb
	L := len(bs)
	at := make([]*Term, L+1) // at[k]: decoding stands at offset k
	for k := range at {
		at[k] = tb.Bool(k == 0)
	}
	ok := tb.Bool(true)
	for k := 0; k < L; k++ {
		if at[k].IsFalse() {
			continue
		}
		in := tb.And(at[k], tb.Bin("bvult", tb.Int(int64(k), 64), n))
		r, sz := c.utf8Decode(bs[k:], tb.Bin("bvsub", n, tb.Int(int64(k), 64)))
		bad := tb.And(tb.Eq(r, tb.Const(utf8.RuneError, S32)), tb.Eq(sz, tb.Int(1, 64)))
		ok = tb.And(ok, tb.Not(tb.And(in, bad)))
		for d := 1; d <= 4 && k+d <= L; d++ {
			at[k+d] = tb.Or(at[k+d], tb.And(in, tb.Eq(sz, tb.Int(int64(d), 64))))
		}
	}
	return ok
}

func inValidString(c *Ctx, fr *Frame, fn *ssa.Function, a []Value) Value {
	s := c.normStr(a[0].(Str))
	if s.b == nil {
		return c.tb.Bool(utf8.ValidString(s.c))
	}
	return c.validUTF8(s.b, s.n)
}

func inValidBytes(c *Ctx, fr *Frame, fn *ssa.Function, a []Value) Value {
	bs, n := c.sliceBytes(a[0].(Slice))
	return c.validUTF8(bs, n)
}

func inRuneCountInString(c *Ctx, fr *Frame, fn *ssa.Function, a []Value) Value {
	s := c.normStr(a[0].(Str))
	tb := c.tb
	if s.b == nil {
		return tb.Int(int64(utf8.RuneCountInString(s.c)), 64)
	}
	L := len(s.b)
	at := make([]*Term, L+1)
	for k := range at {
		at[k] = tb.Bool(k == 0)
	}
	cnt := tb.Int(0, 64)
	for k := 0; k < L; k++ {
		in := tb.And(at[k], tb.Bin("bvult", tb.Int(int64(k), 64), s.n))
		_, sz := c.utf8Decode(s.b[k:], tb.Bin("bvsub", s.n, tb.Int(int64(k), 64)))
		cnt = tb.Bin("bvadd", cnt, tb.Ite(in, tb.Int(1, 64), tb.Int(0, 64)))
		for d := 1; d <= 4 && k+d <= L; d++ {
			at[k+d] = tb.Or(at[k+d], tb.And(in, tb.Eq(sz, tb.Int(int64(d), 64))))
		}
	}
	return cnt
}
