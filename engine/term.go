package main

// Hash-consed SMT term language: Bool, bit-vectors of width 8/16/32/64 and
// IEEE floats (32/64). Smart constructors fold constants so that concrete
// code runs concretely.

import (
	"fmt"
	"math"
	"math/bits"
	"strings"
)

type Sort struct {
	W int  // 0 = Bool, else bit width
	F bool // floating point of width W (32 or 64)
}

var (
	SBool = Sort{}
	S8    = Sort{W: 8}
	S16   = Sort{W: 16}
	S32   = Sort{W: 32}
	S64   = Sort{W: 64}
	SF32  = Sort{W: 32, F: true}
	SF64  = Sort{W: 64, F: true}
)

func (s Sort) String() string {
	if s.W == 0 {
		return "Bool"
	}
	if s.F {
		if s.W == 32 {
			return "(_ FloatingPoint 8 24)"
		}
		return "(_ FloatingPoint 11 53)"
	}
	return fmt.Sprintf("(_ BitVec %d)", s.W)
}

type Term struct {
	op    string
	args  []*Term
	s     Sort
	isC   bool
	cval  uint64 // constant value (bool: 0/1; bv: masked; float: IEEE bits of its width)
	p1    int    // extra parameter (extract hi / extend amount)
	p2    int    // extract lo
	id    int    // 0 = not interned yet (constants are interned lazily)
	name  string // for symbols
	ub    uint64 // known unsigned upper bound on this path (set when an assumption states one)
	hasUB bool
}

// TermTable is per-run: a run creates terms deterministically.
type TermTable struct {
	tab    map[string]*Term
	nextID int
	consts map[[2]uint64]*Term
	nTerms int
}

func NewTermTable() *TermTable {
	return &TermTable{tab: map[string]*Term{}, nextID: 1, consts: map[[2]uint64]*Term{}}
}

func mask(w int) uint64 {
	if w >= 64 {
		return ^uint64(0)
	}
	return (uint64(1) << uint(w)) - 1
}

func sx(v uint64, w int) int64 {
	if w >= 64 {
		return int64(v)
	}
	return int64(v<<(64-uint(w))) >> (64 - uint(w))
}

type TB struct{ t *TermTable } // term builder bound to a table

func (b TB) idOf(t *Term) int {
	if t.id == 0 {
		t.id = b.t.nextID
		b.t.nextID++
	}
	return t.id
}

func (b TB) mk(op string, s Sort, p1, p2 int, args ...*Term) *Term {
	var sb strings.Builder
	sb.WriteString(op)
	sb.WriteByte('/')
	sb.WriteString(fmt.Sprint(s.W, s.F, p1, p2))
	for _, a := range args {
		if a.isC {
			fmt.Fprintf(&sb, " c%d:%d:%v", a.cval, a.s.W, a.s.F)
		} else {
			fmt.Fprintf(&sb, " %d", a.id)
		}
	}
	k := sb.String()
	if t, ok := b.t.tab[k]; ok {
		return t
	}
	t := &Term{op: op, args: args, s: s, p1: p1, p2: p2}
	t.id = b.t.nextID
	b.t.nextID++
	b.t.tab[k] = t
	b.t.nTerms++
	return t
}

func (b TB) Const(v uint64, s Sort) *Term {
	if s.W == 0 {
		if v != 0 {
			return termTrue
		}
		return termFalse
	}
	v &= mask(s.W)
	return &Term{isC: true, cval: v, s: s}
}

var termTrue = &Term{isC: true, cval: 1, s: SBool}
var termFalse = &Term{isC: true, cval: 0, s: SBool}

func (b TB) Bool(v bool) *Term {
	if v {
		return termTrue
	}
	return termFalse
}
func (b TB) Int(v int64, w int) *Term { return b.Const(uint64(v), Sort{W: w}) }
func (b TB) F32(f float32) *Term      { return &Term{isC: true, cval: uint64(math.Float32bits(f)), s: SF32} }
func (b TB) F64(f float64) *Term      { return &Term{isC: true, cval: math.Float64bits(f), s: SF64} }

func (t *Term) f32() float32 { return math.Float32frombits(uint32(t.cval)) }
func (t *Term) f64() float64 { return math.Float64frombits(t.cval) }
func (t *Term) fval() float64 {
	if t.s.W == 32 {
		return float64(t.f32())
	}
	return t.f64()
}
func (t *Term) IsTrue() bool  { return t.isC && t.s.W == 0 && t.cval == 1 }
func (t *Term) IsFalse() bool { return t.isC && t.s.W == 0 && t.cval == 0 }
func (t *Term) Int64() int64  { return sx(t.cval, t.s.W) }

func (b TB) Sym(name string, s Sort) *Term {
	t := b.mk("$"+name, s, 0, 0)
	t.name = name
	return t
}

func same(a, c *Term) bool {
	if a == c {
		return true
	}
	return a.isC && c.isC && a.cval == c.cval && a.s == c.s
}

func (b TB) Not(a *Term) *Term {
	if a.isC {
		return b.Bool(a.cval == 0)
	}
	if a.op == "not" {
		return a.args[0]
	}
	return b.mk("not", SBool, 0, 0, a)
}

func (b TB) And(a, c *Term) *Term {
	if a.isC {
		if a.cval == 0 {
			return a
		}
		return c
	}
	if c.isC {
		if c.cval == 0 {
			return c
		}
		return a
	}
	if a == c {
		return a
	}
	if (a.op == "not" && a.args[0] == c) || (c.op == "not" && c.args[0] == a) {
		return termFalse
	}
	return b.mk("and", SBool, 0, 0, a, c)
}

func (b TB) Or(a, c *Term) *Term {
	if a.isC {
		if a.cval == 1 {
			return a
		}
		return c
	}
	if c.isC {
		if c.cval == 1 {
			return c
		}
		return a
	}
	if a == c {
		return a
	}
	if (a.op == "not" && a.args[0] == c) || (c.op == "not" && c.args[0] == a) {
		return termTrue
	}
	return b.mk("or", SBool, 0, 0, a, c)
}

func (b TB) Implies(a, c *Term) *Term { return b.Or(b.Not(a), c) }

func (b TB) Ite(c, x, y *Term) *Term {
	if c.isC {
		if c.cval == 1 {
			return x
		}
		return y
	}
	if same(x, y) {
		return x
	}
	if x.s.W == 0 {
		if x.isC && y.isC {
			if x.cval == 1 {
				return c
			}
			return b.Not(c)
		}
		if x.isC {
			if x.cval == 1 {
				return b.Or(c, y)
			}
			return b.And(b.Not(c), y)
		}
		if y.isC {
			if y.cval == 1 {
				return b.Or(b.Not(c), x)
			}
			return b.And(c, x)
		}
	}
	if x.s != y.s {
		panic(fmt.Sprintf("ite sort mismatch %v %v", x.s, y.s))
	}
	return b.mk("ite", x.s, 0, 0, c, x, y)
}

func (b TB) Eq(x, y *Term) *Term {
	if x.s != y.s {
		panic(fmt.Sprintf("eq sort mismatch %v %v (%s, %s)", x.s, y.s, x.op, y.op))
	}
	if x.s.F {
		return b.fcmp("fp.eq", x, y)
	}
	if x.isC && y.isC {
		return b.Bool(x.cval == y.cval)
	}
	if x == y {
		return termTrue
	}
	if x.s.W == 0 {
		if x.isC {
			if x.cval == 1 {
				return y
			}
			return b.Not(y)
		}
		if y.isC {
			if y.cval == 1 {
				return x
			}
			return b.Not(x)
		}
	}
	// ite(c, k1, k2) == k  with constants folds to c / not c / false
	if y.isC && x.op == "ite" && x.args[1].isC && x.args[2].isC {
		a1, a2 := x.args[1].cval == y.cval, x.args[2].cval == y.cval
		switch {
		case a1 && a2:
			return termTrue
		case a1:
			return x.args[0]
		case a2:
			return b.Not(x.args[0])
		default:
			return termFalse
		}
	}
	if x.isC && !y.isC {
		x, y = y, x
	}
	if !x.isC && !y.isC && x.id > y.id {
		x, y = y, x
	}
	return b.mk("=", SBool, 0, 0, x, y)
}

// Bin builds an integer bit-vector operation.
func (b TB) Bin(op string, x, y *Term) *Term {
	if x.s != y.s {
		panic(fmt.Sprintf("bin %s sort mismatch %v %v", op, x.s, y.s))
	}
	w := x.s.W
	if x.isC && y.isC {
		a, c := x.cval, y.cval
		switch op {
		case "bvadd":
			return b.Const(a+c, x.s)
		case "bvsub":
			return b.Const(a-c, x.s)
		case "bvmul":
			return b.Const(a*c, x.s)
		case "bvand":
			return b.Const(a&c, x.s)
		case "bvor":
			return b.Const(a|c, x.s)
		case "bvxor":
			return b.Const(a^c, x.s)
		case "bvudiv":
			if c == 0 {
				return b.Const(mask(w), x.s)
			}
			return b.Const(a/c, x.s)
		case "bvurem":
			if c == 0 {
				return x
			}
			return b.Const(a%c, x.s)
		case "bvsdiv":
			if c == 0 {
				if sx(a, w) < 0 {
					return b.Const(1, x.s)
				}
				return b.Const(mask(w), x.s)
			}
			if sx(c, w) == -1 {
				return b.Const(uint64(-sx(a, w)), x.s)
			}
			return b.Const(uint64(sx(a, w)/sx(c, w)), x.s)
		case "bvsrem":
			if c == 0 {
				return x
			}
			if sx(c, w) == -1 {
				return b.Const(0, x.s)
			}
			return b.Const(uint64(sx(a, w)%sx(c, w)), x.s)
		case "bvshl":
			if c >= uint64(w) {
				return b.Const(0, x.s)
			}
			return b.Const(a<<c, x.s)
		case "bvlshr":
			if c >= uint64(w) {
				return b.Const(0, x.s)
			}
			return b.Const(a>>c, x.s)
		case "bvashr":
			if c >= uint64(w) {
				c = uint64(w - 1)
			}
			return b.Const(uint64(sx(a, w)>>c), x.s)
		case "bvult":
			return b.Bool(a < c)
		case "bvule":
			return b.Bool(a <= c)
		case "bvslt":
			return b.Bool(sx(a, w) < sx(c, w))
		case "bvsle":
			return b.Bool(sx(a, w) <= sx(c, w))
		}
		panic("bin const " + op)
	}
	rs := x.s
	switch op {
	case "bvult", "bvule", "bvslt", "bvsle":
		rs = SBool
		if x == y {
			return b.Bool(op == "bvule" || op == "bvsle")
		}
		// unsigned compare against constant bounds
		if op == "bvult" && y.isC && y.cval == 0 {
			return termFalse
		}
		if op == "bvule" && x.isC && x.cval == 0 {
			return termTrue
		}
		// zero-extended operand compared with a large constant
		if r := b.rangeFold(op, x, y); r != nil {
			return r
		}
	case "bvadd":
		if y.isC && y.cval == 0 {
			return x
		}
		if x.isC && x.cval == 0 {
			return y
		}
		if x.isC { // canonical: constant on the right
			x, y = y, x
		}
		// (a + c1) + c2
		if y.isC && x.op == "bvadd" && x.args[1].isC {
			return b.Bin("bvadd", x.args[0], b.Const(x.args[1].cval+y.cval, x.s))
		}
	case "bvsub":
		if y.isC && y.cval == 0 {
			return x
		}
		if x == y {
			return b.Const(0, x.s)
		}
		if y.isC {
			return b.Bin("bvadd", x, b.Const(-y.cval, x.s))
		}
	case "bvmul":
		if y.isC && y.cval == 1 {
			return x
		}
		if x.isC && x.cval == 1 {
			return y
		}
		if (y.isC && y.cval == 0) || (x.isC && x.cval == 0) {
			return b.Const(0, x.s)
		}
		if x.isC {
			x, y = y, x
		}
		if y.isC && bits.OnesCount64(y.cval) == 1 {
			return b.Bin("bvshl", x, b.Const(uint64(bits.TrailingZeros64(y.cval)), x.s))
		}
	case "bvudiv":
		if y.isC && y.cval == 1 {
			return x
		}
		if y.isC && bits.OnesCount64(y.cval) == 1 {
			return b.Bin("bvlshr", x, b.Const(uint64(bits.TrailingZeros64(y.cval)), x.s))
		}
	case "bvurem":
		if y.isC && y.cval == 1 {
			return b.Const(0, x.s)
		}
		if y.isC && bits.OnesCount64(y.cval) == 1 {
			return b.Bin("bvand", x, b.Const(y.cval-1, x.s))
		}
	case "bvsdiv":
		if y.isC && y.cval == 1 {
			return x
		}
	case "bvand":
		if y.isC && y.cval == 0 || x.isC && x.cval == 0 {
			return b.Const(0, x.s)
		}
		if y.isC && y.cval == mask(w) {
			return x
		}
		if x.isC && x.cval == mask(w) {
			return y
		}
		if x == y {
			return x
		}
	case "bvor", "bvxor":
		if y.isC && y.cval == 0 {
			return x
		}
		if x.isC && x.cval == 0 {
			return y
		}
		if x == y {
			if op == "bvor" {
				return x
			}
			return b.Const(0, x.s)
		}
	case "bvshl", "bvlshr", "bvashr":
		if y.isC && y.cval == 0 {
			return x
		}
		if x.isC && x.cval == 0 {
			return x
		}
		if y.isC && y.cval >= uint64(w) && op != "bvashr" {
			return b.Const(0, x.s)
		}
	}
	return b.mk(op, rs, 0, 0, x, y)
}

// maxU returns an upper bound of the unsigned value of t known syntactically.
func maxU(t *Term) uint64 {
	if t.isC {
		return t.cval
	}
	if t.hasUB {
		return t.ub
	}
	switch t.op {
	case "zero_extend":
		return maxU(t.args[0])
	case "ite":
		a, c := maxU(t.args[1]), maxU(t.args[2])
		if a > c {
			return a
		}
		return c
	case "bvand":
		a, c := maxU(t.args[0]), maxU(t.args[1])
		if a < c {
			return a
		}
		return c
	case "bvlshr":
		if t.args[1].isC && t.args[1].cval < 64 {
			return maxU(t.args[0]) >> t.args[1].cval
		}
	case "bvurem":
		if t.args[1].isC && t.args[1].cval > 0 {
			return t.args[1].cval - 1
		}
	}
	return mask(t.s.W)
}

func (b TB) rangeFold(op string, x, y *Term) *Term {
	w := x.s.W
	half := uint64(1) << uint(w-1)
	if y.isC {
		mx := maxU(x)
		switch op {
		case "bvult":
			if mx < y.cval {
				return termTrue
			}
		case "bvule":
			if mx <= y.cval {
				return termTrue
			}
		case "bvslt":
			if mx < half && y.cval < half && mx < y.cval {
				return termTrue
			}
			if mx < half && y.cval >= half { // x >= 0 > y
				return termFalse
			}
		case "bvsle":
			if mx < half && y.cval < half && mx <= y.cval {
				return termTrue
			}
			if mx < half && y.cval >= half {
				return termFalse
			}
		}
	}
	if x.isC {
		my := maxU(y)
		switch op {
		case "bvult":
			if my <= x.cval {
				return termFalse
			}
		case "bvule":
			if my < x.cval {
				return termFalse
			}
		case "bvslt":
			if my < half && x.cval >= half {
				return termTrue
			}
			if my < half && x.cval < half && my <= x.cval {
				return termFalse
			}
		case "bvsle":
			if my < half && x.cval >= half {
				return termTrue
			}
			if my < half && x.cval < half && my < x.cval {
				return termFalse
			}
		}
	}
	return nil
}

func (b TB) BvNot(x *Term) *Term {
	if x.isC {
		return b.Const(^x.cval, x.s)
	}
	return b.mk("bvnot", x.s, 0, 0, x)
}
func (b TB) BvNeg(x *Term) *Term {
	if x.isC {
		return b.Const(-x.cval, x.s)
	}
	return b.mk("bvneg", x.s, 0, 0, x)
}

func (b TB) Extract(hi, lo int, x *Term) *Term {
	w := hi - lo + 1
	if lo == 0 && w == x.s.W {
		return x
	}
	if x.isC {
		return b.Const(x.cval>>uint(lo), Sort{W: w})
	}
	if lo == 0 && (x.op == "zero_extend" || x.op == "sign_extend") {
		in := x.args[0]
		if in.s.W == w {
			return in
		}
		if in.s.W > w {
			return b.Extract(hi, 0, in)
		}
		// narrower than w: re-extend
		if x.op == "zero_extend" {
			return b.ZExt(in, w)
		}
		return b.SExt(in, w)
	}
	return b.mk("extract", Sort{W: w}, hi, lo, x)
}

func (b TB) ZExt(x *Term, w int) *Term {
	if x.s.W == w {
		return x
	}
	if x.s.W > w {
		return b.Extract(w-1, 0, x)
	}
	if x.isC {
		return b.Const(x.cval, Sort{W: w})
	}
	if x.op == "zero_extend" {
		return b.ZExt(x.args[0], w)
	}
	return b.mk("zero_extend", Sort{W: w}, w-x.s.W, 0, x)
}

func (b TB) SExt(x *Term, w int) *Term {
	if x.s.W == w {
		return x
	}
	if x.s.W > w {
		return b.Extract(w-1, 0, x)
	}
	if x.isC {
		return b.Const(uint64(sx(x.cval, x.s.W)), Sort{W: w})
	}
	if x.op == "zero_extend" { // sign bit is zero
		return b.ZExt(x.args[0], w)
	}
	return b.mk("sign_extend", Sort{W: w}, w-x.s.W, 0, x)
}

func (b TB) Concat(hi, lo *Term) *Term {
	w := hi.s.W + lo.s.W
	if hi.isC && lo.isC {
		return b.Const(hi.cval<<uint(lo.s.W)|lo.cval, Sort{W: w})
	}
	if hi.isC && hi.cval == 0 {
		return b.ZExt(lo, w)
	}
	return b.mk("concat", Sort{W: w}, 0, 0, hi, lo)
}

// ---- floats ----

func (b TB) fconst(f float64, s Sort) *Term {
	if s.W == 32 {
		return b.F32(float32(f))
	}
	return b.F64(f)
}

func (b TB) fcmp(op string, x, y *Term) *Term {
	if x.isC && y.isC {
		a, c := x.fval(), y.fval()
		switch op {
		case "fp.eq":
			return b.Bool(a == c)
		case "fp.lt":
			return b.Bool(a < c)
		case "fp.leq":
			return b.Bool(a <= c)
		case "fp.gt":
			return b.Bool(a > c)
		case "fp.geq":
			return b.Bool(a >= c)
		}
	}
	return b.mk(op, SBool, 0, 0, x, y)
}

func (b TB) farith(op string, x, y *Term) *Term {
	if x.isC && y.isC {
		if x.s.W == 32 {
			a, c := x.f32(), y.f32()
			switch op {
			case "fp.add":
				return b.F32(a + c)
			case "fp.sub":
				return b.F32(a - c)
			case "fp.mul":
				return b.F32(a * c)
			case "fp.div":
				return b.F32(a / c)
			}
		} else {
			a, c := x.f64(), y.f64()
			switch op {
			case "fp.add":
				return b.F64(a + c)
			case "fp.sub":
				return b.F64(a - c)
			case "fp.mul":
				return b.F64(a * c)
			case "fp.div":
				return b.F64(a / c)
			}
		}
	}
	return b.mk(op, x.s, 0, 0, x, y)
}

func (b TB) fneg(x *Term) *Term {
	if x.isC {
		if x.s.W == 32 {
			return b.F32(-x.f32())
		}
		return b.F64(-x.f64())
	}
	return b.mk("fp.neg", x.s, 0, 0, x)
}

// ---- printing ----

func (t *Term) ref() string {
	if t.isC {
		switch {
		case t.s.W == 0:
			if t.cval == 1 {
				return "true"
			}
			return "false"
		case t.s.F && t.s.W == 32:
			return fmt.Sprintf("((_ to_fp 8 24) (_ bv%d 32))", t.cval)
		case t.s.F:
			return fmt.Sprintf("((_ to_fp 11 53) (_ bv%d 64))", t.cval)
		}
		return fmt.Sprintf("(_ bv%d %d)", t.cval, t.s.W)
	}
	return fmt.Sprintf("t%d", t.id)
}

// emit writes definitions for t and its not-yet-emitted descendants.
func emit(sb *strings.Builder, emitted map[int]bool, t *Term) {
	if t.isC || emitted[t.id] {
		return
	}
	// iterative post-order to avoid deep recursion
	type fr struct {
		t *Term
		i int
	}
	stack := []fr{{t, 0}}
	for len(stack) > 0 {
		f := &stack[len(stack)-1]
		if f.i < len(f.t.args) {
			a := f.t.args[f.i]
			f.i++
			if !a.isC && !emitted[a.id] {
				stack = append(stack, fr{a, 0})
			}
			continue
		}
		n := f.t
		stack = stack[:len(stack)-1]
		if emitted[n.id] {
			continue
		}
		emitted[n.id] = true
		if strings.HasPrefix(n.op, "$") {
			fmt.Fprintf(sb, "(declare-const t%d %s)\n", n.id, n.s)
			continue
		}
		var as []string
		for _, a := range n.args {
			as = append(as, a.ref())
		}
		op := n.op
		switch op {
		case "extract":
			op = fmt.Sprintf("(_ extract %d %d)", n.p1, n.p2)
		case "zero_extend", "sign_extend":
			op = fmt.Sprintf("(_ %s %d)", op, n.p1)
		case "fp.add", "fp.sub", "fp.mul", "fp.div":
			op = op + " RNE"
		case "f2f32":
			op = "(_ to_fp 8 24) RNE"
		case "f2f64":
			op = "(_ to_fp 11 53) RNE"
		case "s2f32":
			op = "(_ to_fp 8 24) RNE"
		case "s2f64":
			op = "(_ to_fp 11 53) RNE"
		case "u2f32":
			op = "(_ to_fp_unsigned 8 24) RNE"
		case "u2f64":
			op = "(_ to_fp_unsigned 11 53) RNE"
		case "f2s":
			op = fmt.Sprintf("(_ fp.to_sbv %d) RTZ", n.s.W)
		case "f2u":
			op = fmt.Sprintf("(_ fp.to_ubv %d) RTZ", n.s.W)
		case "bits2f32":
			op = "(_ to_fp 8 24)"
		case "bits2f64":
			op = "(_ to_fp 11 53)"
		}
		fmt.Fprintf(sb, "(define-fun t%d () %s (%s %s))\n", n.id, n.s, op, strings.Join(as, " "))
	}
}

func (t *Term) String() string {
	if t.isC {
		if t.s.W == 0 {
			return fmt.Sprint(t.cval == 1)
		}
		if t.s.F {
			return fmt.Sprint(t.fval())
		}
		return fmt.Sprint(sx(t.cval, t.s.W))
	}
	if strings.HasPrefix(t.op, "$") {
		return t.op[1:]
	}
	return t.short(3)
}

func (t *Term) short(d int) string {
	if t.isC || strings.HasPrefix(t.op, "$") {
		return t.String()
	}
	if d == 0 {
		return fmt.Sprintf("t%d", t.id)
	}
	var as []string
	for _, a := range t.args {
		as = append(as, a.short(d-1))
	}
	return "(" + t.op + " " + strings.Join(as, " ") + ")"
}
