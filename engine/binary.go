package main

// encoding/binary.Read / Write modelled over the engine's values: the data is flattened
// to (symbolic) bytes in the given byte order and handed to the real Writer / read with
// the real io.ReadFull. This replaces both the fast paths and the reflection fallback.

import (
	"fmt"
	"go/types"
	"strings"

	"golang.org/x/tools/go/ssa"
)

func init() {
	intrinsics["encoding/binary.Write"] = inBinaryWrite
	intrinsics["encoding/binary.Read"] = inBinaryRead
}

func (c *Ctx) invokeMethod(fr *Frame, recv Iface, name string, args ...Value) Value {
	if recv.t == nil {
		c.violation("panic:nil-deref", fr, "method call on nil interface: "+name)
		panic(pathEnd{"panic"})
	}
	ms := c.w.prog.MethodSets.MethodSet(recv.t)
	for i := 0; i < ms.Len(); i++ {
		if ms.At(i).Obj().Name() == name {
			fn := c.w.prog.MethodValue(ms.At(i))
			return c.call(fr, fn, append([]Value{recv.v}, args...), nil)
		}
	}
	panic(unsupported(fmt.Sprintf("no method %s on %s", name, recv.t)))
}

func isBigEndian(order Iface) bool {
	return order.t != nil && strings.Contains(order.t.String(), "bigEndian")
}

func (c *Ctx) scalarBytes(t *Term, big bool) []*Term {
	tb := c.tb
	if t.s.W == 0 {
		return []*Term{tb.Ite(t, tb.Const(1, S8), tb.Const(0, S8))}
	}
	if t.s.F {
		switch {
		case t.isC:
			t = tb.Const(t.cval, Sort{W: t.s.W})
		case t.op == "bits2f32" || t.op == "bits2f64":
			t = t.args[0]
		default:
			panic(unsupported("binary encoding of a computed symbolic float"))
		}
	}
	n := t.s.W / 8
	out := make([]*Term, n)
	for i := 0; i < n; i++ {
		b := tb.Extract(8*i+7, 8*i, t)
		if big {
			out[n-1-i] = b
		} else {
			out[i] = b
		}
	}
	return out
}

func (c *Ctx) flatten(fr *Frame, v Value, t types.Type, big bool, out []*Term) []*Term {
	switch x := v.(type) {
	case *Term:
		return append(out, c.scalarBytes(x, big)...)
	case Agg:
		switch ut := t.Underlying().(type) {
		case *types.Struct:
			for i := range x {
				out = c.flatten(fr, x[i], ut.Field(i).Type(), big, out)
			}
		case *types.Array:
			for i := range x {
				out = c.flatten(fr, x[i], ut.Elem(), big, out)
			}
		}
		return out
	case Slice:
		x = c.concSliceLen(fr, x)
		el := t.Underlying().(*types.Slice).Elem()
		for i := 0; i < int(x.n.cval); i++ {
			out = c.flatten(fr, x.arr.elems[x.off+i], el, big, out)
		}
		return out
	case Ptr:
		return c.flatten(fr, c.load(fr, x), t.Underlying().(*types.Pointer).Elem(), big, out)
	}
	panic(unsupported(fmt.Sprintf("binary.Write of %T", v)))
}

func inBinaryWrite(c *Ctx, fr *Frame, fn *ssa.Function, a []Value) Value {
	w, order, data := a[0].(Iface), a[1].(Iface), a[2].(Iface)
	if data.t == nil {
		panic(unsupported("binary.Write(nil)"))
	}
	var sl Slice
	if s, ok := data.v.(Slice); ok && isByteSlice(data.t) {
		sl = s // written as is (length may be symbolic)
	} else {
		bs := c.flatten(fr, data.v, data.t, isBigEndian(order), nil)
		arr := &Array{elems: make([]Value, len(bs))}
		for i, b := range bs {
			arr.elems[i] = b
		}
		sl = Slice{arr: arr, n: c.tb.Int(int64(len(bs)), 64), cap: len(bs)}
	}
	r := c.invokeMethod(fr, w, "Write", sl).(Tuple)
	return r[1]
}

func isByteSlice(t types.Type) bool {
	s, ok := t.Underlying().(*types.Slice)
	if !ok {
		return false
	}
	b, ok := s.Elem().Underlying().(*types.Basic)
	return ok && b.Kind() == types.Uint8
}

func (c *Ctx) binSize(fr *Frame, v Value, t types.Type) int {
	switch ut := t.Underlying().(type) {
	case *types.Basic:
		s, ok := sortOfBasic(ut)
		if !ok {
			panic(unsupported("binary size of " + t.String()))
		}
		if s.W == 0 {
			return 1
		}
		return s.W / 8
	case *types.Struct:
		n := 0
		for i := 0; i < ut.NumFields(); i++ {
			n += c.binSize(fr, nil, ut.Field(i).Type())
		}
		return n
	case *types.Array:
		return int(ut.Len()) * c.binSize(fr, nil, ut.Elem())
	case *types.Slice:
		s := c.concSliceLen(fr, v.(Slice))
		return int(s.n.cval) * c.binSize(fr, nil, ut.Elem())
	}
	panic(unsupported("binary size of " + t.String()))
}

func (c *Ctx) unflatten(bs []*Term, pos *int, t types.Type, big bool) Value {
	tb := c.tb
	switch ut := t.Underlying().(type) {
	case *types.Basic:
		s, _ := sortOfBasic(ut)
		if s.W == 0 {
			b := bs[*pos]
			*pos++
			return tb.Not(tb.Eq(b, tb.Const(0, S8)))
		}
		n := s.W / 8
		chunk := bs[*pos : *pos+n]
		*pos += n
		var cur *Term
		for i := 0; i < n; i++ {
			var b *Term
			if big {
				b = chunk[i]
			} else {
				b = chunk[n-1-i]
			}
			if cur == nil {
				cur = b
			} else {
				cur = tb.Concat(cur, b)
			}
		}
		if s.F {
			if cur.isC {
				return &Term{isC: true, cval: cur.cval, s: s}
			}
			return tb.mk(fmt.Sprintf("bits2f%d", s.W), s, 0, 0, cur)
		}
		return cur
	case *types.Struct:
		a := make(Agg, ut.NumFields())
		for i := range a {
			a[i] = c.unflatten(bs, pos, ut.Field(i).Type(), big)
		}
		return a
	case *types.Array:
		a := make(Agg, int(ut.Len()))
		for i := range a {
			a[i] = c.unflatten(bs, pos, ut.Elem(), big)
		}
		return a
	}
	panic(unsupported("binary decode of " + t.String()))
}

func inBinaryRead(c *Ctx, fr *Frame, fn *ssa.Function, a []Value) Value {
	r, order, data := a[0], a[1].(Iface), a[2].(Iface)
	if data.t == nil {
		panic(unsupported("binary.Read(nil)"))
	}
	big := isBigEndian(order)
	readFull := c.w.findFunc("io", "ReadFull")
	switch ut := data.t.Underlying().(type) {
	case *types.Pointer:
		p := data.v.(Ptr)
		n := c.binSize(fr, nil, ut.Elem())
		buf := c.makeSlice(fr, types.NewSlice(types.Typ[types.Uint8]), c.tb.Int(int64(n), 64), c.tb.Int(int64(n), 64)).(Slice)
		res := c.call(fr, readFull, []Value{r, buf}, nil).(Tuple)
		if err := res[1].(Iface); err.t != nil {
			return err
		}
		bs, _ := c.sliceBytes(buf)
		pos := 0
		c.store(fr, p, c.unflatten(bs, &pos, ut.Elem(), big))
		return Iface{}
	case *types.Slice:
		s := c.concSliceLen(fr, data.v.(Slice))
		n := c.binSize(fr, s, data.t)
		buf := c.makeSlice(fr, types.NewSlice(types.Typ[types.Uint8]), c.tb.Int(int64(n), 64), c.tb.Int(int64(n), 64)).(Slice)
		res := c.call(fr, readFull, []Value{r, buf}, nil).(Tuple)
		if err := res[1].(Iface); err.t != nil {
			return err
		}
		bs, _ := c.sliceBytes(buf)
		pos := 0
		for i := 0; i < int(s.n.cval); i++ {
			c.assign(&s.arr.elems[s.off+i], c.unflatten(bs, &pos, ut.Elem(), big))
		}
		return Iface{}
	}
	panic(unsupported("binary.Read into " + data.t.String()))
}
