package main

import (
	"fmt"
	"go/token"
	"go/types"
	"math"
	"strings"
	"unicode/utf8"

	"golang.org/x/tools/go/ssa"
)

func (c *Ctx) binop(fr *Frame, op token.Token, xt types.Type, x, y Value) Value {
	tb := c.tb
	switch x := x.(type) {
	case *Term:
		yt, ok := y.(*Term)
		if !ok {
			panic(unsupported(fmt.Sprintf("binop %s on term and %T", op, y)))
		}
		return c.binopTerm(fr, op, xt, x, yt)
	case Str:
		ys := y.(Str)
		switch op {
		case token.ADD:
			return c.strConcat(fr, x, ys)
		case token.EQL:
			return c.strEq(x, ys)
		case token.NEQ:
			return tb.Not(c.strEq(x, ys))
		case token.LSS:
			return c.strLess(x, ys, false)
		case token.LEQ:
			return c.strLess(x, ys, true)
		case token.GTR:
			return c.strLess(ys, x, false)
		case token.GEQ:
			return c.strLess(ys, x, true)
		}
	default:
		switch op {
		case token.EQL:
			return c.valEq(fr, x, y)
		case token.NEQ:
			return tb.Not(c.valEq(fr, x, y))
		}
	}
	panic(unsupported(fmt.Sprintf("binop %s on %T", op, x)))
}

func (c *Ctx) binopTerm(fr *Frame, op token.Token, xt types.Type, x, y *Term) Value {
	tb := c.tb
	if x.s.F {
		switch op {
		case token.ADD:
			return c.farith(fr, "fp.add", x, y)
		case token.SUB:
			return c.farith(fr, "fp.sub", x, y)
		case token.MUL:
			return c.farith(fr, "fp.mul", x, y)
		case token.QUO:
			return c.farith(fr, "fp.div", x, y)
		case token.EQL:
			return tb.fcmp("fp.eq", x, y)
		case token.NEQ:
			return tb.Not(tb.fcmp("fp.eq", x, y))
		case token.LSS:
			return tb.fcmp("fp.lt", x, y)
		case token.LEQ:
			return tb.fcmp("fp.leq", x, y)
		case token.GTR:
			return tb.fcmp("fp.gt", x, y)
		case token.GEQ:
			return tb.fcmp("fp.geq", x, y)
		}
		panic(unsupported("float binop " + op.String()))
	}
	if x.s.W == 0 {
		switch op {
		case token.EQL:
			return tb.Eq(x, y)
		case token.NEQ:
			return tb.Not(tb.Eq(x, y))
		case token.AND, token.LAND:
			return tb.And(x, y)
		case token.OR, token.LOR:
			return tb.Or(x, y)
		}
		panic(unsupported("bool binop " + op.String()))
	}
	signed := isSigned(xt)
	switch op {
	case token.ADD:
		return tb.Bin("bvadd", x, y)
	case token.SUB:
		return tb.Bin("bvsub", x, y)
	case token.MUL:
		return tb.Bin("bvmul", x, y)
	case token.QUO, token.REM:
		c.obligation(fr, tb.Eq(y, tb.Const(0, y.s)), "panic:divide", "integer divide by zero")
		o := map[bool]map[token.Token]string{true: {token.QUO: "bvsdiv", token.REM: "bvsrem"}, false: {token.QUO: "bvudiv", token.REM: "bvurem"}}[signed][op]
		return tb.Bin(o, x, y)
	case token.AND:
		return tb.Bin("bvand", x, y)
	case token.OR:
		return tb.Bin("bvor", x, y)
	case token.XOR:
		return tb.Bin("bvxor", x, y)
	case token.AND_NOT:
		return tb.Bin("bvand", x, tb.BvNot(y))
	case token.SHL, token.SHR:
		// the shift count may have another width and is unsigned or (checked) non-negative
		w := x.s.W
		var cnt *Term
		if y.s.W > w {
			big := tb.Not(tb.Bin("bvult", y, tb.Const(uint64(w), y.s)))
			cnt = tb.Ite(big, tb.Const(uint64(w), x.s), tb.Extract(w-1, 0, y))
		} else {
			cnt = tb.ZExt(y, w)
		}
		if op == token.SHL {
			return tb.Bin("bvshl", x, cnt)
		}
		if signed {
			return tb.Bin("bvashr", x, cnt)
		}
		return tb.Bin("bvlshr", x, cnt)
	case token.EQL:
		return tb.Eq(x, y)
	case token.NEQ:
		return tb.Not(tb.Eq(x, y))
	case token.LSS:
		if signed {
			return tb.Bin("bvslt", x, y)
		}
		return tb.Bin("bvult", x, y)
	case token.LEQ:
		if signed {
			return tb.Bin("bvsle", x, y)
		}
		return tb.Bin("bvule", x, y)
	case token.GTR:
		if signed {
			return tb.Bin("bvslt", y, x)
		}
		return tb.Bin("bvult", y, x)
	case token.GEQ:
		if signed {
			return tb.Bin("bvsle", y, x)
		}
		return tb.Bin("bvule", y, x)
	}
	panic(unsupported("int binop " + op.String()))
}

func (c *Ctx) farith(fr *Frame, op string, x, y *Term) *Term {
	if x.isC && y.isC {
		return c.tb.farith(op, x, y)
	}
	if c.w.cfg.FloatMode == "abstract" && (op == "fp.mul" || op == "fp.div") {
		return c.absFloat(op, x, y)
	}
	return c.tb.farith(op, x, y)
}

// valEq compares reference-like values (pointers, interfaces, maps, channels, funcs, aggregates).
func (c *Ctx) valEq(fr *Frame, x, y Value) *Term {
	tb := c.tb
	switch x := x.(type) {
	case nil:
		return tb.Bool(isNilValue(y))
	case *Term:
		if yt, ok := y.(*Term); ok {
			return tb.Eq(x, yt)
		}
		return tb.Bool(false)
	case Str:
		if ys, ok := y.(Str); ok {
			return c.strEq(x, ys)
		}
		return tb.Bool(false)
	case Ptr:
		yp, ok := y.(Ptr)
		if !ok {
			return tb.Bool(isNilValue(y) && x.p == nil && x.arr == nil)
		}
		if x.arr != nil || yp.arr != nil {
			if x.arr != nil && yp.arr != nil && x.arr == yp.arr && x.off == yp.off {
				return tb.Eq(x.idx, yp.idx)
			}
			if x.arr != nil {
				x = c.concPtr(fr, x, "pointer comparison")
			}
			if yp.arr != nil {
				yp = c.concPtr(fr, yp, "pointer comparison")
			}
		}
		return tb.Bool(x.p == yp.p)
	case Iface:
		yi, ok := y.(Iface)
		if !ok {
			return tb.Bool(isNilValue(y) && x.t == nil)
		}
		if x.t == nil || yi.t == nil {
			return tb.Bool(x.t == nil && yi.t == nil)
		}
		if !types.Identical(x.t, yi.t) {
			return tb.Bool(false)
		}
		return c.valEq(fr, x.v, yi.v)
	case *Map:
		ym, _ := y.(*Map)
		return tb.Bool(x == ym)
	case *Chan:
		yc, _ := y.(*Chan)
		return tb.Bool(x == yc)
	case *Closure:
		yc, _ := y.(*Closure)
		if x == nil || yc == nil {
			return tb.Bool(x == nil && yc == nil)
		}
		panic(unsupported("comparison of non-nil funcs"))
	case Slice:
		// only comparison with nil is legal
		return tb.Bool(x.arr == nil)
	case Agg:
		ya := y.(Agg)
		r := tb.Bool(true)
		for i := range x {
			r = tb.And(r, c.valEq(fr, x[i], ya[i]))
		}
		return r
	case Opaque:
		yo, ok := y.(Opaque)
		return tb.Bool(ok && yo.id == x.id)
	}
	panic(unsupported(fmt.Sprintf("equality on %T", x)))
}

func isNilValue(v Value) bool {
	switch v := v.(type) {
	case nil:
		return true
	case Ptr:
		return v.p == nil && v.arr == nil
	case Iface:
		return v.t == nil
	case *Map:
		return v == nil
	case *Chan:
		return v == nil
	case *Closure:
		return v == nil
	case Slice:
		return v.arr == nil
	}
	return false
}

// ---------------------------------------------------------------------------
// strings

func (c *Ctx) strEq(x, y Str) *Term {
	tb := c.tb
	if x.b == nil && y.b == nil {
		return tb.Bool(x.c == y.c)
	}
	xb, yb := c.strBytes(x), c.strBytes(y)
	xn, yn := c.strLen(x), c.strLen(y)
	r := tb.Eq(xn, yn)
	m := min(len(xb), len(yb))
	// lengths beyond the shorter physical size cannot be equal unless both <= m
	if len(xb) != len(yb) {
		r = tb.And(r, tb.Bin("bvule", xn, tb.Int(int64(m), 64)))
	}
	for k := 0; k < m; k++ {
		inRange := tb.Bin("bvult", tb.Int(int64(k), 64), xn)
		r = tb.And(r, tb.Implies(inRange, tb.Eq(xb[k], yb[k])))
		if r.IsFalse() {
			return r
		}
	}
	return r
}

// strLess: x < y (or <= when orEq) lexicographically.
func (c *Ctx) strLess(x, y Str, orEq bool) *Term {
	tb := c.tb
	if x.b == nil && y.b == nil {
		if orEq {
			return tb.Bool(x.c <= y.c)
		}
		return tb.Bool(x.c < y.c)
	}
	xb, yb := c.strBytes(x), c.strBytes(y)
	xn, yn := c.strLen(x), c.strLen(y)
	m := max(len(xb), len(yb))
	// result at position m (all compared bytes equal and both exhausted is handled inside)
	var cur *Term
	if orEq {
		cur = tb.Bin("bvule", xn, yn)
	} else {
		cur = tb.Bin("bvult", xn, yn)
	}
	for k := m - 1; k >= 0; k-- {
		kk := tb.Int(int64(k), 64)
		xin, yin := tb.Bin("bvult", kk, xn), tb.Bin("bvult", kk, yn)
		var bx, by *Term = tb.Const(0, S8), tb.Const(0, S8)
		if k < len(xb) {
			bx = xb[k]
		}
		if k < len(yb) {
			by = yb[k]
		}
		// if x ended: less iff y has more (or equal allowed when both ended)
		endX := tb.Not(xin)
		endY := tb.Not(yin)
		var atEndX *Term
		if orEq {
			atEndX = tb.Bool(true)
		} else {
			atEndX = yin
		}
		cur = tb.Ite(endX, atEndX, tb.Ite(endY, tb.Bool(false), tb.Ite(tb.Bin("bvult", bx, by), tb.Bool(true), tb.Ite(tb.Bin("bvult", by, bx), tb.Bool(false), cur))))
	}
	return cur
}

func (c *Ctx) strConcat(fr *Frame, x, y Str) Value {
	if x.b == nil && y.b == nil {
		return mkStr(x.c + y.c)
	}
	if x.b == nil && len(x.c) == 0 {
		return y
	}
	if y.b == nil && len(y.c) == 0 {
		return x
	}
	xn := c.strLen(x)
	if !xn.isC {
		x = c.concretizeStrLen(fr, x)
		xn = c.strLen(x)
	}
	xb := c.strBytes(x)[:xn.cval]
	yb := c.strBytes(y)
	out := make([]*Term, 0, len(xb)+len(yb))
	out = append(out, xb...)
	out = append(out, yb...)
	return c.normStr(Str{b: out, n: c.tb.Bin("bvadd", xn, c.strLen(y))})
}

// concretizeStrLen case-splits the length of a symbolic string.
func (c *Ctx) concretizeStrLen(fr *Frame, s Str) Str {
	if s.b == nil || s.n.isC {
		return s
	}
	n := int(c.concretize(fr, s.n, "string length"))
	if n > len(s.b) {
		panic(pathEnd{"string length beyond physical size"})
	}
	return c.normStr(Str{b: s.b[:n], n: c.tb.Int(int64(n), 64)})
}

// concretizeStr case-splits length and all bytes (used for map keys, native bridges).
func (c *Ctx) concretizeStr(fr *Frame, s Str, why string) Str {
	s = c.concretizeStrLen(fr, s)
	if s.b == nil {
		return s
	}
	var sb strings.Builder
	for _, b := range s.b[:s.n.cval] {
		sb.WriteByte(byte(c.concretize(fr, b, why)))
	}
	return mkStr(sb.String())
}

// ---------------------------------------------------------------------------
// conversions

func (c *Ctx) convert(fr *Frame, from, to types.Type, x Value) Value {
	tb := c.tb
	ut, uf := to.Underlying(), from.Underlying()
	switch ut := ut.(type) {
	case *types.Basic:
		if ut.Kind() == types.UnsafePointer {
			switch x := x.(type) {
			case Ptr:
				return x
			case *Term: // uintptr -> unsafe.Pointer
				if x.isC && x.cval == 0 {
					return Ptr{}
				}
				panic(unsupported("uintptr to unsafe.Pointer"))
			}
		}
		if ut.Info()&types.IsString != 0 {
			switch x := x.(type) {
			case Str:
				return x
			case Slice: // []byte or []rune -> string
				el := uf.(*types.Slice).Elem().Underlying().(*types.Basic)
				if el.Kind() == types.Uint8 {
					return c.bytesToStr(fr, x)
				}
				// []rune
				x = c.concSliceLen(fr, x)
				allC := true
				for i := 0; i < int(x.n.cval); i++ {
					if !x.arr.elems[x.off+i].(*Term).isC {
						allC = false
					}
				}
				if enc := c.w.findFunc("unicode/utf8", "AppendRune"); !allC && enc != nil {
					// symbolic runes: the real utf8.AppendRune decides each rune's size class (a fork per
					// class at most, none when the path condition already fixes it); no split over values
					var acc Value = Slice{n: tb.Int(0, 64)}
					for i := 0; i < int(x.n.cval); i++ {
						acc = c.call(fr, enc, []Value{acc, x.arr.elems[x.off+i].(*Term)}, nil)
					}
					return c.bytesToStr(fr, c.concSliceLen(fr, acc.(Slice)))
				}
				var sb strings.Builder
				for i := 0; i < int(x.n.cval); i++ {
					r := x.arr.elems[x.off+i].(*Term)
					rv := c.concretize(fr, r, "rune to string")
					sb.WriteRune(rune(int32(rv)))
				}
				return mkStr(sb.String())
			case *Term: // integer -> string
				if x.isC {
					return mkStr(string(rune(x.Int64())))
				}
				// symbolic rune: ASCII stays one byte, otherwise case split
				enc := c.w.findFunc("unicode/utf8", "AppendRune")
				if enc == nil {
					panic(unsupported("string(symbolic rune)"))
				}
				r := tb.SExt(x, 32)
				if x.s.W > 32 {
					r = tb.Extract(31, 0, x)
				}
				res := c.call(fr, enc, []Value{Slice{n: tb.Int(0, 64)}, r}, nil).(Slice)
				return c.bytesToStr(fr, res)
			}
		}
		if xt, ok := x.(*Term); ok {
			fb, ok2 := uf.(*types.Basic)
			if !ok2 {
				break
			}
			ts, _ := sortOfBasic(ut)
			if ut.Info()&types.IsInteger != 0 && fb.Info()&types.IsInteger != 0 {
				if ts.W <= xt.s.W {
					return tb.Extract(ts.W-1, 0, xt)
				}
				if fb.Info()&types.IsUnsigned != 0 {
					return tb.ZExt(xt, ts.W)
				}
				return tb.SExt(xt, ts.W)
			}
			if ut.Info()&types.IsFloat != 0 && fb.Info()&types.IsFloat != 0 {
				if ts == xt.s {
					return xt
				}
				if xt.isC {
					return tb.fconst(xt.fval(), ts)
				}
				return tb.mk(fmt.Sprintf("f2f%d", ts.W), ts, 0, 0, xt)
			}
			if ut.Info()&types.IsFloat != 0 && fb.Info()&types.IsInteger != 0 {
				uns := fb.Info()&types.IsUnsigned != 0
				if xt.isC {
					if uns {
						return tb.fconst(float64(xt.cval), ts)
					}
					return tb.fconst(float64(xt.Int64()), ts)
				}
				if uns {
					return tb.mk(fmt.Sprintf("u2f%d", ts.W), ts, 0, 0, xt)
				}
				return tb.mk(fmt.Sprintf("s2f%d", ts.W), ts, 0, 0, xt)
			}
			if ut.Info()&types.IsInteger != 0 && fb.Info()&types.IsFloat != 0 {
				uns := ut.Info()&types.IsUnsigned != 0
				if xt.isC {
					f := xt.fval()
					if uns {
						return tb.Const(uint64(f), ts)
					}
					return tb.Const(uint64(int64(f)), ts)
				}
				if uns {
					return tb.mk("f2u", ts, 0, 0, xt)
				}
				return tb.mk("f2s", ts, 0, 0, xt)
			}
			if ut.Info()&types.IsBoolean != 0 {
				return xt
			}
		}
		if p, ok := x.(Ptr); ok && ut.Kind() == types.Uintptr {
			if p.p == nil && p.arr == nil {
				return tb.Const(0, S64)
			}
			return Opaque{what: "uintptr-of-pointer"}
		}
	case *types.Slice:
		if s, ok := x.(Str); ok {
			el := ut.Elem().Underlying().(*types.Basic)
			if el.Kind() == types.Uint8 {
				bs := c.strBytes(s)
				arr := &Array{elems: make([]Value, len(bs))}
				for i, b := range bs {
					arr.elems[i] = b
				}
				return Slice{arr: arr, n: c.strLen(s), cap: len(bs)}
			}
			// []rune(s)
			s = c.normStr(s)
			if dec := c.w.findFunc("unicode/utf8", "DecodeRuneInString"); s.b != nil && dec != nil {
				// symbolic bytes: fix the length, then decode rune by rune through the real utf8 code
				s = c.concretizeStrLen(fr, s)
				if s.b != nil {
					n := int(s.n.cval)
					arr := &Array{}
					for pos := 0; pos < n; {
						rest := c.normStr(Str{b: s.b[pos:n], n: tb.Int(int64(n-pos), 64)})
						r := c.call(fr, dec, []Value{rest}, nil).(Tuple)
						sz := c.concretize(fr, r[1].(*Term), "rune size")
						arr.elems = append(arr.elems, r[0])
						pos += int(sz)
					}
					return Slice{arr: arr, n: tb.Int(int64(len(arr.elems)), 64), cap: len(arr.elems)}
				}
			}
			if s.b != nil {
				s = c.concretizeStr(fr, s, "[]rune conversion")
			}
			rs := []rune(s.c)
			arr := &Array{elems: make([]Value, len(rs))}
			for i, r := range rs {
				arr.elems[i] = tb.Int(int64(r), 32)
			}
			return Slice{arr: arr, n: tb.Int(int64(len(rs)), 64), cap: len(rs)}
		}
		return x
	case *types.Pointer:
		if p, ok := x.(Ptr); ok {
			return p
		}
	}
	if _, ok := x.(*Term); !ok {
		return x // named ↔ unnamed conversions of identical underlying types
	}
	panic(unsupported(fmt.Sprintf("convert %s -> %s", from, to)))
}

func (c *Ctx) concSliceLen(fr *Frame, s Slice) Slice {
	if s.n.isC {
		return s
	}
	n := c.concretize(fr, s.n, "slice length")
	s.n = c.tb.Int(int64(n), 64)
	return s
}

func (c *Ctx) bytesToStr(fr *Frame, x Slice) Str {
	if x.arr == nil {
		return Str{}
	}
	phys := c.physLen(x)
	bs := make([]*Term, phys)
	for i := 0; i < phys; i++ {
		bs[i] = x.arr.elems[x.off+i].(*Term)
	}
	return c.normStr(Str{b: bs, n: x.n})
}

// ---------------------------------------------------------------------------
// builtins

func (c *Ctx) builtin(fr *Frame, name string, args []Value, call *ssa.CallCommon) Value {
	tb := c.tb
	switch name {
	case "len":
		switch x := args[0].(type) {
		case Str:
			return c.strLen(x)
		case Slice:
			return x.n
		case Agg:
			return tb.Int(int64(len(x)), 64)
		case *Map:
			if x == nil {
				return tb.Int(0, 64)
			}
			return tb.Int(int64(x.live), 64)
		case *Chan:
			if x == nil {
				return tb.Int(0, 64)
			}
			return tb.Int(int64(len(x.buf)), 64)
		case Ptr: // *array
			return tb.Int(call.Args[0].Type().Underlying().(*types.Pointer).Elem().Underlying().(*types.Array).Len(), 64)
		}
	case "cap":
		switch x := args[0].(type) {
		case Slice:
			return tb.Int(int64(x.cap), 64)
		case Agg:
			return tb.Int(int64(len(x)), 64)
		case *Chan:
			if x == nil {
				return tb.Int(0, 64)
			}
			return tb.Int(int64(x.cap), 64)
		case Ptr:
			return tb.Int(call.Args[0].Type().Underlying().(*types.Pointer).Elem().Underlying().(*types.Array).Len(), 64)
		}
	case "append":
		c.noMerge("append")
		return c.appendOp(fr, args[0].(Slice), args[1], call)
	case "copy":
		c.noMerge("copy")
		return c.copyOp(fr, args[0].(Slice), args[1])
	case "delete":
		c.noMerge("delete")
		if m := args[0].(*Map); m != nil && c.raceEnabled(fr) {
			c.raceAccess(fr, m, true)
		}
		c.mapDelete(fr, args[0].(*Map), args[1])
		return nil
	case "clear":
		c.noMerge("clear")
		switch x := args[0].(type) {
		case *Map:
			if x != nil {
				for _, e := range append([]*mapEntry(nil), x.entries...) {
					if !e.deleted {
						c.mapDelete(fr, x, e.k)
					}
				}
			}
		case Slice:
			z := c.zero(call.Args[0].Type().Underlying().(*types.Slice).Elem())
			if !x.n.isC {
				if zt, ok := z.(*Term); ok && x.arr != nil {
					phys := c.physLen(x)
					for i := 0; i < phys; i++ {
						old := x.arr.elems[x.off+i].(*Term)
						c.assign(&x.arr.elems[x.off+i], tb.Ite(tb.Bin("bvult", tb.Int(int64(i), 64), x.n), zt, old))
					}
					return nil
				}
			}
			x = c.concSliceLen(fr, x)
			for i := 0; i < int(x.n.cval); i++ {
				c.assign(&x.arr.elems[x.off+i], z)
			}
		}
		return nil
	case "min", "max":
		cur := args[0]
		for _, a := range args[1:] {
			switch x := cur.(type) {
			case *Term:
				y := a.(*Term)
				var lt *Term
				if x.s.F {
					lt = tb.fcmp("fp.lt", x, y)
				} else if isSigned(call.Args[0].Type()) {
					lt = tb.Bin("bvslt", x, y)
				} else {
					lt = tb.Bin("bvult", x, y)
				}
				if name == "min" {
					cur = tb.Ite(lt, x, y)
				} else {
					cur = tb.Ite(lt, y, x)
				}
			default:
				panic(unsupported("min/max on non-scalar"))
			}
		}
		return cur
	case "panic":
		c.explicitPanic(fr, args[0])
	case "recover":
		return Iface{}
	case "print", "println":
		return nil
	case "close":
		c.noMerge("close")
		c.chanClose(fr, args[0].(*Chan))
		return nil
	case "ssa:wrapnilchk":
		p := args[0].(Ptr)
		if p.p == nil && p.arr == nil {
			c.violation("panic:nil-deref", fr, "value method called using nil pointer")
			panic(pathEnd{"panic"})
		}
		return p
	case "String": // unsafe.String(ptr, len)
		p := args[0].(Ptr)
		n := args[1].(*Term)
		return c.unsafeString(fr, p, n)
	case "StringData":
		s := args[0].(Str)
		bs := c.strBytes(s)
		arr := &Array{elems: make([]Value, len(bs))}
		for i, b := range bs {
			arr.elems[i] = b
		}
		if len(bs) == 0 {
			return Ptr{}
		}
		return Ptr{p: &arr.elems[0], obj: &Object{what: "strdata"}, arr: nil}
	case "SliceData":
		s := args[0].(Slice)
		if s.arr == nil || s.cap == 0 {
			return Ptr{}
		}
		c.sliceData[&s.arr.elems[s.off]] = s
		return Ptr{p: &s.arr.elems[s.off]}
	case "Slice": // unsafe.Slice(ptr, len)
		p := args[0].(Ptr)
		n := args[1].(*Term)
		if base, ok := c.sliceData[p.p]; ok {
			return Slice{arr: base.arr, off: base.off, n: tb.ZExt(n, 64), cap: base.cap}
		}
		panic(unsupported("unsafe.Slice on unknown pointer"))
	}
	panic(unsupported(fmt.Sprintf("builtin %s on %T", name, args[0])))
}

func (c *Ctx) unsafeString(fr *Frame, p Ptr, n *Term) Value {
	if p.p == nil {
		return Str{}
	}
	if base, ok := c.sliceData[p.p]; ok {
		s := base
		s.n = c.tb.ZExt(n, 64)
		return c.bytesToStr(fr, s)
	}
	panic(unsupported("unsafe.String on unknown pointer"))
}

func (c *Ctx) appendOp(fr *Frame, s Slice, more Value, call *ssa.CallCommon) Value {
	tb := c.tb
	var add []Value
	var addN *Term
	switch m := more.(type) {
	case Slice:
		if m.arr == nil || (m.n.isC && m.n.cval == 0) {
			return s
		}
		m = c.concSliceLen(fr, m)
		add = make([]Value, int(m.n.cval))
		for i := range add {
			add[i] = copyVal(m.arr.elems[m.off+i])
		}
		addN = m.n
	case Str:
		if m.b == nil && len(m.c) == 0 {
			return s
		}
		m = c.concretizeStrLen(fr, m)
		bs := c.strBytes(m)
		add = make([]Value, int(c.strLen(m).cval))
		for i := range add {
			add[i] = bs[i]
		}
		addN = c.strLen(m)
	default:
		panic(unsupported(fmt.Sprintf("append of %T", more)))
	}
	if !s.n.isC {
		s = c.concSliceLen(fr, s)
	}
	n := int(s.n.cval)
	total := n + len(add)
	if s.arr != nil && total <= s.cap {
		for i, v := range add {
			c.assign(&s.arr.elems[s.off+n+i], v)
		}
		return Slice{arr: s.arr, off: s.off, n: tb.Bin("bvadd", s.n, addN), cap: s.cap}
	}
	ncap := max(2*s.cap, total)
	if ncap > 1024 && ncap > total+total/4 {
		ncap = total + total/4
	}
	arr := &Array{elems: make([]Value, ncap)}
	for i := 0; i < n; i++ {
		arr.elems[i] = copyVal(s.arr.elems[s.off+i])
	}
	copy(arr.elems[n:], add)
	if ncap > total {
		z := c.zero(call.Args[0].Type().Underlying().(*types.Slice).Elem())
		for i := total; i < ncap; i++ {
			arr.elems[i] = copyVal(z)
		}
	}
	return Slice{arr: arr, off: 0, n: tb.Int(int64(total), 64), cap: ncap}
}

func (c *Ctx) copyOp(fr *Frame, dst Slice, src Value) Value {
	tb := c.tb
	var srcN *Term
	var get func(i int) Value
	var sphys int
	switch s := src.(type) {
	case Slice:
		srcN = s.n
		sphys = s.cap
		if s.n.isC {
			sphys = int(s.n.cval)
		}
		get = func(i int) Value { return s.arr.elems[s.off+i] }
	case Str:
		bs := c.strBytes(s)
		srcN = c.strLen(s)
		sphys = len(bs)
		get = func(i int) Value { return bs[i] }
	default:
		panic(unsupported("copy source"))
	}
	lt := tb.Bin("bvult", dst.n, srcN)
	n := tb.Ite(lt, dst.n, srcN)
	if n.isC {
		k := int(n.cval)
		tmp := make([]Value, k)
		for i := 0; i < k; i++ {
			tmp[i] = copyVal(get(i))
		}
		for i := 0; i < k; i++ {
			c.assign(&dst.arr.elems[dst.off+i], tmp[i])
		}
		return n
	}
	// symbolic count: element i is overwritten iff i < n (scalar elements only)
	dphys := dst.cap
	if dst.n.isC {
		dphys = int(dst.n.cval)
	}
	k := min(dphys, sphys)
	tmp := make([]Value, k)
	for i := 0; i < k; i++ {
		tmp[i] = get(i)
	}
	for i := 0; i < k; i++ {
		old, ok1 := dst.arr.elems[dst.off+i].(*Term)
		nv, ok2 := tmp[i].(*Term)
		if !ok1 || !ok2 {
			kk := c.concretize(fr, n, "copy count")
			for j := 0; j < int(kk); j++ {
				c.assign(&dst.arr.elems[dst.off+j], copyVal(tmp[j]))
			}
			return tb.Int(int64(kk), 64)
		}
		c.assign(&dst.arr.elems[dst.off+i], tb.Ite(tb.Bin("bvult", tb.Int(int64(i), 64), n), nv, old))
	}
	return n
}

var _ = math.MaxInt
var _ = utf8.RuneError

// physLen: number of physical elements that can be inside the slice's (possibly symbolic) length.
func (c *Ctx) physLen(x Slice) int {
	if x.n.isC {
		return int(x.n.cval)
	}
	phys := x.cap
	if ub := maxU(x.n); ub < uint64(phys) {
		phys = int(ub)
	}
	return phys
}
