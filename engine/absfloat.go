package main

// Lemma-abstracted floating point (filled in with C18).

type absApp struct {
	op   string
	x, y *Term
	r    *Term
}

func (c *Ctx) absFloat(op string, x, y *Term) *Term {
	panic(unsupported("abstract float mode not built yet"))
}
