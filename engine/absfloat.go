package main

// Lemma-abstracted floating point ("floatMode": "abstract").
//
// Chains of floating-point arithmetic are out of reach of the solvers (DESIGN §4), so in this mode
// every multiplication, division and math.Exp on symbolic operands is an UNINTERPRETED result: a
// fresh symbol constrained only by single-operation IEEE-754 lemmas instantiated at the
// application (and pairwise between applications of the same kind). Addition, subtraction,
// comparisons and conversions keep their exact semantics. Because every lemma is a consequence of
// the real operation, the abstraction over-approximates float32/float64 arithmetic: "unsat"
// transfers to the real semantics; a "sat" may be spurious and is only reported after native replay.
//
// The multiplication/division lemmas are themselves checked against the exact SMT semantics by
// `gosym lemmas` (solver-discharged); the Exp lemmas are math.Exp's documented special cases and
// monotonicity (trusted, listed in the evidence).

import (
	"fmt"
	"math"
	"os"
	"os/exec"
	"strings"
)

type absApp struct {
	op   string
	x, y *Term
	r    *Term
}

func (c *Ctx) fpConst(v float64, s Sort) *Term { return c.tb.fconst(v, s) }

func (c *Ctx) fpPred(op string, t *Term) *Term {
	if t.isC {
		f := t.fval()
		switch op {
		case "fp.isNaN":
			return c.tb.Bool(f != f)
		case "fp.isInfinite":
			return c.tb.Bool(math.IsInf(f, 0))
		}
	}
	return c.tb.mk(op, SBool, 0, 0, t)
}

func (c *Ctx) absFloat(op string, x, y *Term) *Term {
	tb := c.tb
	c.absSeq++
	r := tb.Sym(fmt.Sprintf("fa%d_%s", c.absSeq, strings.TrimPrefix(op, "fp.")), x.s)
	app := absApp{op: op, x: x, y: y, r: r}
	for _, l := range c.absLemmas(app) {
		c.assertPC(l)
	}
	for _, o := range c.absApps {
		for _, l := range c.absPairLemmas(o, app) {
			c.assertPC(l)
		}
	}
	c.absApps = append(c.absApps, app)
	return r
}

// absLemmas: single-application lemmas (instantiated forms of the library checked by `gosym lemmas`).
func (c *Ctx) absLemmas(a absApp) []*Term {
	tb := c.tb
	s := a.x.s
	zero, one := c.fpConst(0, s), c.fpConst(1, s)
	nan := func(t *Term) *Term { return c.fpPred("fp.isNaN", t) }
	inf := func(t *Term) *Term { return c.fpPred("fp.isInfinite", t) }
	le := func(p, q *Term) *Term { return tb.fcmp("fp.leq", p, q) }
	lt := func(p, q *Term) *Term { return tb.fcmp("fp.lt", p, q) }
	eq := func(p, q *Term) *Term { return tb.fcmp("fp.eq", p, q) }
	and := func(ts ...*Term) *Term {
		cur := tb.Bool(true)
		for _, t := range ts {
			cur = tb.And(cur, t)
		}
		return cur
	}
	imp := tb.Implies
	fin := func(t *Term) *Term { return and(tb.Not(nan(t)), tb.Not(inf(t))) }
	x, y, r := a.x, a.y, a.r
	switch a.op {
	case "fp.mul":
		return []*Term{
			imp(tb.Or(nan(x), nan(y)), nan(r)),
			imp(and(fin(x), fin(y)), tb.Not(nan(r))),
			imp(and(le(zero, x), fin(x), le(zero, y), le(y, one)), and(le(zero, r), le(r, x))),
			imp(and(le(zero, y), fin(y), le(zero, x), le(x, one)), and(le(zero, r), le(r, y))),
		}
	case "fp.div":
		posFin := and(lt(zero, y), fin(y))
		return []*Term{
			imp(tb.Or(nan(x), nan(y)), nan(r)),
			imp(and(tb.Not(nan(x)), posFin), tb.Not(nan(r))),
			imp(and(le(zero, x), le(x, y), posFin), and(le(zero, r), le(r, one))),
			imp(and(eq(x, zero), lt(zero, y)), eq(r, zero)),
			imp(and(inf(x), lt(x, zero), posFin), and(inf(r), lt(r, zero))),
			imp(and(eq(x, y), posFin), eq(r, one)),
			imp(and(lt(zero, x), fin(x), posFin), le(zero, r)),
			imp(and(fin(x), le(one, y), fin(y)), fin(r)),
		}
	case "math.Exp":
		negInf := and(inf(x), lt(x, zero))
		posInf := and(inf(x), lt(zero, x))
		return []*Term{
			imp(nan(x), nan(r)),
			imp(tb.Not(nan(x)), and(tb.Not(nan(r)), le(zero, r))),
			imp(negInf, eq(r, zero)),
			imp(posInf, and(inf(r), lt(zero, r))),
			imp(eq(x, zero), eq(r, one)),
			imp(le(x, zero), le(r, one)),
			imp(and(le(x, zero), le(c.fpConst(-80, s), x)), lt(zero, r)), // exp(-80) = 1.8e-35 > 0 in float64
		}
	}
	return nil
}

// absPairLemmas: monotonicity between two applications of the same kind.
func (c *Ctx) absPairLemmas(a, b absApp) []*Term {
	tb := c.tb
	if a.op != b.op || a.x.s != b.x.s {
		return nil
	}
	le := func(p, q *Term) *Term { return tb.fcmp("fp.leq", p, q) }
	switch a.op {
	case "math.Exp":
		return []*Term{tb.Implies(le(a.x, b.x), le(a.r, b.r)), tb.Implies(le(b.x, a.x), le(b.r, a.r))}
	}
	return nil
}

// lemmaSelfCheck discharges the mul/div lemma library against the exact IEEE semantics:
// for fresh x, y and r := x op y (exact), the negation of each lemma must be unsat.
func lemmaSelfCheck() int {
	c := &Ctx{tb: TB{NewTermTable()}}
	c.w = &World{}
	bad := 0
	total := 0
	for _, op := range []string{"fp.mul", "fp.div"} {
		x := c.tb.mk("bits2f32", SF32, 0, 0, c.tb.Sym("x", S32))
		y := c.tb.mk("bits2f32", SF32, 0, 0, c.tb.Sym("y", S32))
		r := c.tb.farith(op, x, y)
		for i, l := range c.absLemmas(absApp{op: op, x: x, y: y, r: r}) {
			total++
			res := oneShot(c.tb.Not(l))
			fmt.Printf("lemma %s #%d: %s\n", op, i, map[string]string{"unsat": "valid", "sat": "INVALID", "unknown": "UNDECIDED"}[res])
			if res != "unsat" {
				bad++
			}
		}
		if false {
			x2 := c.tb.mk("bits2f32", SF32, 0, 0, c.tb.Sym("x2", S32))
			r2 := c.tb.farith(op, x2, y)
			for i, l := range c.absPairLemmas(absApp{op: op, x: x, y: y, r: r}, absApp{op: op, x: x2, y: y, r: r2}) {
				total++
				res := oneShot(c.tb.Not(l))
				fmt.Printf("pair lemma %s #%d: %s\n", op, i, map[string]string{"unsat": "valid", "sat": "INVALID", "unknown": "UNDECIDED"}[res])
				if res != "unsat" {
					bad++
				}
			}
		}
	}
	fmt.Printf("lemmas: %d checked, %d not valid\n", total, bad)
	if bad > 0 {
		return 1
	}
	return 0
}

// oneShot decides a closed query with the portfolio (cvc5 first: it is the one that finishes fp.mul).
func oneShot(t *Term) string {
	var sb strings.Builder
	emit(&sb, map[int]bool{}, t)
	fmt.Fprintf(&sb, "(assert %s)\n(check-sat)\n", t.ref())
	f, _ := os.CreateTemp("", "gosym-lemma-*.smt2")
	defer os.Remove(f.Name())
	for _, cand := range [][]string{{"cvc5", "--tlimit=120000"}, {"z3-new", "-T:120"}, {"z3", "-T:120"}} {
		if _, err := exec.LookPath(cand[0]); err != nil {
			continue
		}
		pre := ""
		if cand[0] == "cvc5" {
			pre = "(set-logic ALL)\n"
		}
		os.WriteFile(f.Name(), []byte(pre+sb.String()), 0o644)
		out, _ := exec.Command(cand[0], append(cand[1:], f.Name())...).CombinedOutput()
		first := strings.TrimSpace(strings.SplitN(string(out), "\n", 2)[0])
		if first == "sat" || first == "unsat" {
			return first
		}
	}
	return "unknown"
}
