package main

// One live SMT solver process per worker (z3 -in by default), spoken to in
// SMT-LIB2. Path conditions are asserted at base level of the current run;
// queries are push/assert/check-sat/pop. Any "(error" line or "unknown" is
// reported as inconclusive, never as success.

import (
	"bufio"
	"fmt"
	"io"
	"os"
	"os/exec"
	"regexp"
	"strconv"
	"strings"
	"sync/atomic"
	"time"
)

type Solver struct {
	cmd        *exec.Cmd
	in         io.WriteCloser
	out        *bufio.Reader
	emitted    map[int]bool
	argv       []string
	timeout    int // ms per query
	buf        strings.Builder
	transcript strings.Builder
	base       strings.Builder // base-level script of this run (for fall-back solvers)

	Queries      int
	Fallbacks    int
	Restarts     int
	firstTimeout int
	Sat          int
	Unsat        int
	Unknown      int
	Errors       int
	Time         time.Duration
	MaxQuery     time.Duration
	dumpQuery    func(string)
}

var solverArgv = defaultSolver()

func defaultSolver() []string {
	if p, err := exec.LookPath("z3-new"); err == nil {
		return []string{p, "-in"}
	}
	return []string{"z3", "-in"}
}

var totalSolverNs atomic.Int64

func NewSolver(timeoutMs int) *Solver {
	s := &Solver{argv: solverArgv, timeout: timeoutMs}
	s.start()
	return s
}

func (s *Solver) start() {
	s.cmd = exec.Command(s.argv[0], s.argv[1:]...)
	in, err := s.cmd.StdinPipe()
	if err != nil {
		panic(err)
	}
	out, err := s.cmd.StdoutPipe()
	if err != nil {
		panic(err)
	}
	s.cmd.Stderr = s.cmd.Stdout
	if err := s.cmd.Start(); err != nil {
		panic(fmt.Sprintf("cannot start solver %v: %v", s.argv, err))
	}
	s.in, s.out = in, bufio.NewReaderSize(out, 1<<16)
	s.emitted = map[int]bool{}
	s.prelude()
}

func (s *Solver) isCvc5() bool { return strings.Contains(s.argv[0], "cvc5") }

func (s *Solver) prelude() {
	if s.isCvc5() {
		fmt.Fprintf(s.in, "(set-option :produce-models true)\n(set-option :tlimit-per %d)\n(set-logic ALL)\n", s.timeout)
	} else {
		fmt.Fprintf(s.in, "(set-option :timeout %d)\n", s.timeout)
	}
}

func (s *Solver) Close() {
	if s.cmd != nil {
		s.in.Close()
		s.cmd.Process.Kill()
		s.cmd.Wait()
		s.cmd = nil
	}
}

var timeoutOpt = regexp.MustCompile(`\(set-option :timeout \d+\)\n`)

var dumpSlowDir = os.Getenv("GOSYM_DUMP_SLOW")
var dumpSeq atomic.Int64

// Reset starts a fresh context for a new run.
func (s *Solver) Reset() {
	s.buf.Reset()
	s.base.Reset()
	s.transcript.Reset()
	s.emitted = map[int]bool{}
	if s.isCvc5() {
		s.buf.WriteString("(reset)\n")
		fmt.Fprintf(&s.buf, "(set-option :produce-models true)\n(set-option :tlimit-per %d)\n(set-logic ALL)\n", s.timeout)
	} else {
		s.buf.WriteString("(reset)\n")
		fmt.Fprintf(&s.buf, "(set-option :timeout %d)\n", s.timeout)
	}
}

// Assert adds t to the base-level path condition (buffered until the next query).
func (s *Solver) Assert(t *Term) {
	if t.IsTrue() {
		return
	}
	emit(&s.buf, s.emitted, t)
	fmt.Fprintf(&s.buf, "(assert %s)\n", t.ref())
}

func (s *Solver) readLine() (string, error) {
	l, err := s.out.ReadString('\n')
	return strings.TrimSpace(l), err
}

// readSexp reads one balanced s-expression (possibly multi-line).
func (s *Solver) readSexp() (string, error) {
	var sb strings.Builder
	depth, started := 0, false
	for {
		l, err := s.out.ReadString('\n')
		if err != nil {
			return sb.String(), err
		}
		sb.WriteString(l)
		for _, ch := range l {
			if ch == '(' {
				depth++
				started = true
			} else if ch == ')' {
				depth--
			}
		}
		if started && depth <= 0 {
			return sb.String(), nil
		}
		if !started && strings.TrimSpace(l) != "" {
			return sb.String(), nil
		}
	}
}

// Check decides satisfiability of base ∧ extra. If wants is non-empty and the
// answer is sat, the values of wants are returned (as uint64 bit patterns).
func (s *Solver) Check(extra *Term, wants []*Term) (string, map[*Term]uint64) {
	if extra.IsFalse() {
		return "unsat", nil
	}
	t0 := time.Now()
	emit(&s.buf, s.emitted, extra)
	var ws []*Term
	for _, w := range wants {
		if !w.isC {
			emit(&s.buf, s.emitted, w)
			ws = append(ws, w)
		}
	}
	s.base.WriteString(s.buf.String())
	if s.firstTimeout > 0 && s.firstTimeout < s.timeout && !s.isCvc5() {
		fmt.Fprintf(&s.buf, "(set-option :timeout %d)\n", s.firstTimeout)
	}
	fmt.Fprintf(&s.buf, "(push 1)\n(assert %s)\n(check-sat)\n", extra.ref())
	q := s.buf.String()
	if dumpSlowDir != "" {
		s.transcript.WriteString(q)
	}
	s.buf.Reset()
	if _, err := io.WriteString(s.in, q); err != nil {
		s.restart()
		s.Errors++
		return "error", nil
	}
	res := s.readResult()
	var model map[*Term]uint64
	if res == "sat" && len(ws) > 0 {
		var rs []string
		for _, w := range ws {
			rs = append(rs, w.ref())
		}
		// chunk to keep lines reasonable
		model = map[*Term]uint64{}
		for i := 0; i < len(ws); i += 200 {
			j := min(i+200, len(ws))
			fmt.Fprintf(s.in, "(get-value (%s))\n", strings.Join(rs[i:j], " "))
			txt, err := s.readSexp()
			if err != nil || strings.Contains(txt, "(error") {
				s.Errors++
				res = "error"
				break
			}
			parseValues(txt, ws[i:j], model)
		}
	}
	io.WriteString(s.in, "(pop 1)\n")
	if res == "unknown" || res == "timeout" {
		if r2, m2 := s.fallback(extra, ws); r2 == "sat" || r2 == "unsat" {
			res, model = r2, m2
			s.Fallbacks++
		}
	}
	d := time.Since(t0)
	if dumpSlowDir != "" {
		if d > 3*time.Second {
			n := dumpSeq.Add(1)
			os.WriteFile(fmt.Sprintf("%s/slow-%d-%s-%dms.smt2", dumpSlowDir, n, res[:3], d.Milliseconds()), []byte(s.transcript.String()), 0o644)
		}
		s.transcript.WriteString("(pop 1)\n")
	}
	s.Queries++
	s.Time += d
	totalSolverNs.Add(int64(d))
	if d > s.MaxQuery {
		s.MaxQuery = d
	}
	switch res {
	case "sat":
		s.Sat++
	case "unsat":
		s.Unsat++
	case "unknown", "timeout":
		s.Unknown++
		res = "unknown"
	default:
		s.Errors++
		res = "error"
		// resynchronise: restart the process, caller must treat run as inconclusive
		s.restart()
	}
	return res, model
}

// restart replaces a solver process that has died or lost synchronisation. The new process must see
// the whole base-level context of the current run again (definitions and path condition); otherwise
// later queries would be answered under-constrained.
func (s *Solver) restart() {
	s.Close()
	saved := s.emitted
	s.start()
	s.emitted = saved
	ctx := strings.ReplaceAll(s.base.String(), "(reset)\n", "")
	io.WriteString(s.in, ctx)
	s.Restarts++
}

func (s *Solver) readResult() string {
	for {
		l, err := s.readLine()
		if err != nil {
			return "error:" + err.Error()
		}
		switch {
		case l == "":
			continue
		case l == "sat" || l == "unsat" || l == "unknown" || l == "timeout":
			return l
		case strings.HasPrefix(l, "(error"):
			return "error:" + l
		case strings.HasPrefix(l, "success"):
			continue
		default:
			return "error:" + l
		}
	}
}

// parseValues parses "((t1 #x00) (t2 true) (t3 (fp ...)))".
func parseValues(txt string, ws []*Term, model map[*Term]uint64) {
	for _, w := range ws {
		key := "(" + w.ref() + " "
		i := strings.Index(txt, key)
		if i < 0 {
			continue
		}
		rest := txt[i+len(key):]
		rest = strings.TrimLeft(rest, " \n")
		switch {
		case strings.HasPrefix(rest, "true"):
			model[w] = 1
		case strings.HasPrefix(rest, "false"):
			model[w] = 0
		case strings.HasPrefix(rest, "#x"):
			j := 2
			for j < len(rest) && isHex(rest[j]) {
				j++
			}
			v, _ := strconv.ParseUint(rest[2:j], 16, 64)
			model[w] = v
		case strings.HasPrefix(rest, "#b"):
			j := 2
			for j < len(rest) && (rest[j] == '0' || rest[j] == '1') {
				j++
			}
			v, _ := strconv.ParseUint(rest[2:j], 2, 64)
			model[w] = v
		case strings.HasPrefix(rest, "(fp "):
			// (fp #b0 #x7f #b000...) sign exponent mantissa
			fields := strings.Fields(strings.NewReplacer("(", " ", ")", " ").Replace(rest))
			if len(fields) >= 4 {
				var bitsStr string
				for _, f := range fields[1:4] {
					bitsStr += litBits(f)
				}
				v, _ := strconv.ParseUint(bitsStr, 2, 64)
				model[w] = v
			}
		case strings.HasPrefix(rest, "(_ +oo"), strings.HasPrefix(rest, "(_ -oo"), strings.HasPrefix(rest, "(_ NaN"), strings.HasPrefix(rest, "(_ +zero"), strings.HasPrefix(rest, "(_ -zero"):
			neg := rest[3] == '-'
			var v uint64
			w32 := w.s.W == 32
			switch {
			case strings.HasPrefix(rest[4:], "oo"):
				if w32 {
					v = 0x7f800000
				} else {
					v = 0x7ff0000000000000
				}
			case strings.HasPrefix(rest[3:], "NaN"):
				if w32 {
					v = 0x7fc00000
				} else {
					v = 0x7ff8000000000000
				}
				neg = false
			}
			if neg {
				if w32 {
					v |= 1 << 31
				} else {
					v |= 1 << 63
				}
			}
			model[w] = v
		case strings.HasPrefix(rest, "(_ bv"):
			j := 5
			for j < len(rest) && rest[j] >= '0' && rest[j] <= '9' {
				j++
			}
			v, _ := strconv.ParseUint(rest[5:j], 10, 64)
			model[w] = v
		}
	}
}

func litBits(f string) string {
	if strings.HasPrefix(f, "#b") {
		return f[2:]
	}
	if strings.HasPrefix(f, "#x") {
		var sb strings.Builder
		for _, c := range f[2:] {
			v, _ := strconv.ParseUint(string(c), 16, 8)
			fmt.Fprintf(&sb, "%04b", v)
		}
		return sb.String()
	}
	return ""
}

func isHex(c byte) bool {
	return c >= '0' && c <= '9' || c >= 'a' && c <= 'f' || c >= 'A' && c <= 'F'
}

// fallback re-decides a query the primary solver gave up on with a portfolio of other back ends
// (cvc5 with the integer encoding of bit-vectors, cvc5 bit-blasting, and the primary again with the
// full time-out). Each gets a standalone script: the base-level context of this run plus the query.
func (s *Solver) fallback(extra *Term, ws []*Term) (string, map[*Term]uint64) {
	var sb strings.Builder
	sb.WriteString(s.base.String())
	fmt.Fprintf(&sb, "(assert %s)\n(check-sat)\n", extra.ref())
	if len(ws) > 0 {
		var rs []string
		for _, w := range ws {
			rs = append(rs, w.ref())
		}
		fmt.Fprintf(&sb, "(get-value (%s))\n", strings.Join(rs, " "))
	}
	body := strings.ReplaceAll(sb.String(), "(reset)\n", "")
	body = timeoutOpt.ReplaceAllString(body, "")
	f, err := os.CreateTemp("", "gosym-q-*.smt2")
	if err != nil {
		return "unknown", nil
	}
	defer os.Remove(f.Name())
	hasFP := strings.Contains(body, "FloatingPoint") || strings.Contains(body, "to_fp")
	type cand struct {
		argv []string
		pre  string
	}
	secs := fmt.Sprint(max(s.timeout/1000, 1))
	var cands []cand
	if _, err := exec.LookPath("cvc5"); err == nil {
		if !hasFP {
			cands = append(cands, cand{[]string{"cvc5", "--produce-models", "--solve-bv-as-int=sum", "--tlimit=" + fmt.Sprint(s.timeout)}, "(set-logic ALL)\n"})
		}
		cands = append(cands, cand{[]string{"cvc5", "--produce-models", "--tlimit=" + fmt.Sprint(s.timeout)}, "(set-logic ALL)\n"})
	}
	cands = append(cands, cand{append(append([]string{}, s.argv[0]), "-T:"+secs), "(set-option :timeout " + fmt.Sprint(s.timeout) + ")\n"})
	if alt, err := exec.LookPath("z3"); err == nil && alt != s.argv[0] {
		cands = append(cands, cand{[]string{alt, "-T:" + secs}, ""})
	}
	for _, cd := range cands {
		pre := cd.pre
		if strings.HasPrefix(cd.argv[0], "cvc5") {
			pre = "(set-option :produce-models true)\n" + pre
		}
		os.WriteFile(f.Name(), []byte(pre+body), 0o644)
		cmd := exec.Command(cd.argv[0], append(cd.argv[1:], f.Name())...)
		out, _ := cmd.CombinedOutput()
		txt := string(out)
		first := strings.TrimSpace(strings.SplitN(txt, "\n", 2)[0])
		if first == "unsat" {
			return "unsat", nil
		}
		if strings.Contains(txt, "(error") {
			continue
		}
		if first == "sat" {
			model := map[*Term]uint64{}
			if len(ws) > 0 {
				rest := strings.SplitN(txt, "\n", 2)
				if len(rest) < 2 {
					continue
				}
				parseValues(rest[1], ws, model)
				if len(model) < len(ws) {
					continue
				}
			}
			return "sat", model
		}
	}
	return "unknown", nil
}
