package main

// sync, sync/atomic, channels. In sequential mode (no scheduler) a blocking operation ends
// the path; with the scheduler enabled (sched.go) they are visible operations.

import (
	"fmt"
	"go/types"
	"strings"

	"golang.org/x/tools/go/ssa"
)

func (c *Ctx) mutexKey(a Value) *Value {
	p := a.(Ptr)
	if p.p == nil {
		panic(unsupported("nil mutex"))
	}
	return p.p
}

func inMutexLock(c *Ctx, fr *Frame, fn *ssa.Function, a []Value) Value {
	k := c.mutexKey(a[0])
	if c.sched != nil {
		c.sched.lock(fr, k, fn.Name())
		return nil
	}
	if c.held == nil {
		c.held = map[*Value]int{}
	}
	if c.held[k] > 0 && !strings.HasPrefix(fn.Name(), "R") {
		c.violation("deadlock:self", fr, "Lock of a mutex already held by the only goroutine")
		panic(pathEnd{"deadlock"})
	}
	c.held[k]++
	return nil
}

func inMutexUnlock(c *Ctx, fr *Frame, fn *ssa.Function, a []Value) Value {
	k := c.mutexKey(a[0])
	if c.sched != nil {
		c.sched.unlock(fr, k, fn.Name())
		return nil
	}
	if c.held[k] == 0 {
		c.violation("panic:unlock", fr, "sync: unlock of unlocked mutex")
		panic(pathEnd{"panic"})
	}
	c.held[k]--
	return nil
}

func inMutexTryLock(c *Ctx, fr *Frame, fn *ssa.Function, a []Value) Value {
	k := c.mutexKey(a[0])
	if c.sched != nil {
		return c.tb.Bool(c.sched.tryLock(fr, k))
	}
	if c.held == nil {
		c.held = map[*Value]int{}
	}
	if c.held[k] > 0 {
		return c.tb.Bool(false)
	}
	c.held[k]++
	return c.tb.Bool(true)
}

func inOnceDo(c *Ctx, fr *Frame, fn *ssa.Function, a []Value) Value {
	k := c.mutexKey(a[0])
	if c.onceDone == nil {
		c.onceDone = map[*Value]bool{}
	}
	if c.onceDone[k] {
		return nil
	}
	c.onceDone[k] = true
	c.callValue(fr, a[1], nil, nil)
	return nil
}

func inWGAdd(c *Ctx, fr *Frame, fn *ssa.Function, a []Value) Value {
	k := c.mutexKey(a[0])
	if c.wg == nil {
		c.wg = map[*Value]int64{}
	}
	d := a[1].(*Term)
	if !d.isC {
		panic(unsupported("WaitGroup.Add with symbolic delta"))
	}
	c.wg[k] += d.Int64()
	if c.sched != nil && c.wg[k] == 0 {
		c.sched.wakeWG(k)
	}
	return nil
}

func inWGDone(c *Ctx, fr *Frame, fn *ssa.Function, a []Value) Value {
	k := c.mutexKey(a[0])
	if c.wg == nil {
		c.wg = map[*Value]int64{}
	}
	c.wg[k]--
	if c.sched != nil {
		c.sched.release(c.sched.cur, c.sched.wgClock(k))
	}
	if c.sched != nil && c.wg[k] == 0 {
		c.sched.wakeWG(k)
	}
	return nil
}

func inWGWait(c *Ctx, fr *Frame, fn *ssa.Function, a []Value) Value {
	k := c.mutexKey(a[0])
	if c.wg[k] == 0 {
		if c.sched != nil {
			c.sched.acquire(c.sched.cur, *c.sched.wgClock(k))
		}
		return nil
	}
	if c.sched != nil {
		c.sched.waitWG(fr, k)
		return nil
	}
	c.incomplete("WaitGroup.Wait would block in sequential mode")
	panic(pathEnd{"blocked"})
}

// ---------------------------------------------------------------------------
// atomics: typed wrappers are structs whose value lives in a field named "v";
// function forms operate on the pointed-to cell.

func registerAtomics() {
	for _, t := range []string{"Int32", "Int64", "Uint32", "Uint64", "Uintptr", "Bool"} {
		tn := "(*sync/atomic." + t + ")."
		intrinsics[tn+"Load"] = atomicMethod
		intrinsics[tn+"Store"] = atomicMethod
		intrinsics[tn+"Add"] = atomicMethod
		intrinsics[tn+"Swap"] = atomicMethod
		intrinsics[tn+"CompareAndSwap"] = atomicMethod
	}
	for _, t := range []string{"Int32", "Int64", "Uint32", "Uint64", "Uintptr", "Pointer"} {
		intrinsics["sync/atomic.Load"+t] = atomicFunc
		intrinsics["sync/atomic.Store"+t] = atomicFunc
		intrinsics["sync/atomic.Add"+t] = atomicFunc
		intrinsics["sync/atomic.Swap"+t] = atomicFunc
		intrinsics["sync/atomic.CompareAndSwap"+t] = atomicFunc
	}
	intrinsics["(*sync/atomic.Value).Load"] = func(c *Ctx, fr *Frame, fn *ssa.Function, a []Value) Value {
		p := a[0].(Ptr)
		return (*p.p).(Agg)[0]
	}
	intrinsics["(*sync/atomic.Value).Store"] = func(c *Ctx, fr *Frame, fn *ssa.Function, a []Value) Value {
		p := a[0].(Ptr)
		c.assign(&(*p.p).(Agg)[0], a[1])
		return nil
	}
	intrinsics["(*sync/atomic.Pointer).Load"] = func(c *Ctx, fr *Frame, fn *ssa.Function, a []Value) Value {
		p := a[0].(Ptr)
		agg := (*p.p).(Agg)
		v := agg[len(agg)-1]
		if q, ok := v.(Ptr); ok {
			return q
		}
		return Ptr{}
	}
	intrinsics["(*sync/atomic.Pointer).Store"] = func(c *Ctx, fr *Frame, fn *ssa.Function, a []Value) Value {
		p := a[0].(Ptr)
		agg := (*p.p).(Agg)
		c.assign(&agg[len(agg)-1], a[1])
		return nil
	}
}

func atomicFieldIndex(t types.Type) int {
	st, ok := t.Underlying().(*types.Struct)
	if !ok {
		return -1
	}
	for i := 0; i < st.NumFields(); i++ {
		if st.Field(i).Name() == "v" {
			return i
		}
	}
	return -1
}

func atomicMethod(c *Ctx, fr *Frame, fn *ssa.Function, a []Value) Value {
	p := a[0].(Ptr)
	recv := fn.Signature.Recv().Type().(*types.Pointer).Elem()
	fi := atomicFieldIndex(recv)
	if fi < 0 {
		panic(unsupported("atomic type layout " + recv.String()))
	}
	slot := &(*p.p).(Agg)[fi]
	isBool := strings.Contains(recv.String(), "Bool")
	return c.atomicOp(fn.Name(), slot, a[1:], isBool)
}

func atomicFunc(c *Ctx, fr *Frame, fn *ssa.Function, a []Value) Value {
	p := a[0].(Ptr)
	name := fn.Name()
	for _, op := range []string{"CompareAndSwap", "Load", "Store", "Add", "Swap"} {
		if strings.HasPrefix(name, op) {
			return c.atomicOp(op, p.p, a[1:], false)
		}
	}
	panic(unsupported("atomic " + name))
}

func (c *Ctx) atomicOp(op string, slot *Value, a []Value, isBool bool) Value {
	tb := c.tb
	cur := *slot
	toBool := func(v Value) Value {
		if isBool {
			t := v.(*Term)
			if t.s.W != 0 {
				return tb.Not(tb.Eq(t, tb.Const(0, t.s)))
			}
		}
		return v
	}
	fromBool := func(v Value) Value {
		if isBool {
			t := v.(*Term)
			if t.s.W == 0 {
				return tb.Ite(t, tb.Const(1, S32), tb.Const(0, S32))
			}
		}
		return v
	}
	switch op {
	case "Load":
		return toBool(cur)
	case "Store":
		c.assign(slot, fromBool(a[0]))
		return nil
	case "Add":
		n := tb.Bin("bvadd", cur.(*Term), a[0].(*Term))
		c.assign(slot, n)
		return n
	case "Swap":
		c.assign(slot, fromBool(a[0]))
		return toBool(cur)
	case "CompareAndSwap":
		oldv, newv := fromBool(a[0]), fromBool(a[1])
		var eq *Term
		if ct, ok := cur.(*Term); ok {
			eq = tb.Eq(ct, oldv.(*Term))
		} else {
			eq = c.valEq(nil, cur, oldv)
		}
		if eq.isC {
			if eq.cval == 1 {
				c.assign(slot, newv)
			}
			return eq
		}
		c.assign(slot, c.iteVal(eq, newv, cur))
		return eq
	}
	panic(unsupported("atomic op " + op))
}

// ---------------------------------------------------------------------------
// channels (sequential semantics; the scheduler overrides these when enabled)

func (c *Ctx) chanSend(fr *Frame, ch *Chan, v Value) {
	if c.sched != nil {
		c.sched.send(fr, ch, v)
		return
	}
	if ch == nil {
		c.incomplete("send on nil channel blocks forever")
		panic(pathEnd{"blocked"})
	}
	if ch.closed {
		c.violation("panic:send-on-closed", fr, "send on closed channel")
		panic(pathEnd{"panic"})
	}
	if len(ch.buf) < ch.cap {
		c.chanPush(ch, v)
		return
	}
	c.noteBlocked(fr, "send")
	panic(pathEnd{"blocked"})
}

func (c *Ctx) chanPush(ch *Chan, v Value) {
	ch.buf = append(ch.buf, v)
	if c.initMode == 0 {
		c.chanUndo = append(c.chanUndo, ch)
	}
}

func (c *Ctx) noteBlocked(fr *Frame, what string) {
	fn, site := c.site(fr)
	c.w.mu.Lock()
	c.w.blocked[fmt.Sprintf("%s would block in sequential mode at %s: %s", what, fn, site)]++
	c.w.mu.Unlock()
}

func (c *Ctx) chanRecv(fr *Frame, ch *Chan, elem types.Type) (Value, bool) {
	if c.sched != nil {
		return c.sched.recv(fr, ch, elem)
	}
	if ch == nil {
		c.noteBlocked(fr, "receive from nil channel")
		panic(pathEnd{"blocked"})
	}
	if len(ch.buf) > 0 {
		v := ch.buf[0]
		ch.buf = ch.buf[1:]
		if c.initMode == 0 {
			c.chanUndo = append(c.chanUndo, ch)
		}
		return v, true
	}
	if ch.closed {
		return c.zero(elem), false
	}
	c.noteBlocked(fr, "receive")
	panic(pathEnd{"blocked"})
}

func (c *Ctx) chanClose(fr *Frame, ch *Chan) {
	if ch == nil {
		c.violation("panic:close-nil", fr, "close of nil channel")
		panic(pathEnd{"panic"})
	}
	if ch.closed {
		c.violation("panic:close-closed", fr, "close of closed channel")
		panic(pathEnd{"panic"})
	}
	if c.sched != nil {
		c.sched.closeChan(fr, ch)
		return
	}
	ch.closed = true
}

func (c *Ctx) selectOp(fr *Frame, in *ssa.Select) Value {
	if c.sched != nil {
		return c.sched.selectOp(fr, in)
	}
	tb := c.tb
	// sequential: ready cases in order; harness-visible choice among several ready ones
	var ready []int
	for i, st := range in.States {
		ch, _ := c.get(fr, st.Chan).(*Chan)
		if ch == nil {
			continue
		}
		if st.Dir == types.SendOnly {
			if ch.closed || len(ch.buf) < ch.cap {
				ready = append(ready, i)
			}
		} else if len(ch.buf) > 0 || ch.closed {
			ready = append(ready, i)
		}
	}
	res := make(Tuple, 2)
	nrecv := 0
	for _, st := range in.States {
		if st.Dir == types.RecvOnly {
			nrecv++
		}
	}
	res = make(Tuple, 2+nrecv)
	res[0], res[1] = tb.Int(-1, 64), tb.Bool(false)
	ri := 2
	for _, st := range in.States {
		if st.Dir == types.RecvOnly {
			res[ri] = c.zero(st.Chan.Type().Underlying().(*types.Chan).Elem())
			ri++
		}
	}
	if len(ready) == 0 {
		if !in.Blocking {
			return res
		}
		c.noteBlocked(fr, "select")
		panic(pathEnd{"blocked"})
	}
	k := ready[c.pick(len(ready), "select")]
	st := in.States[k]
	ch := c.get(fr, st.Chan).(*Chan)
	res[0] = tb.Int(int64(k), 64)
	if st.Dir == types.SendOnly {
		c.chanSend(fr, ch, copyVal(c.get(fr, st.Send)))
		return res
	}
	v, ok := c.chanRecv(fr, ch, st.Chan.Type().Underlying().(*types.Chan).Elem())
	res[1] = tb.Bool(ok)
	ri = 2
	for i, s := range in.States {
		if s.Dir == types.RecvOnly {
			if i == k {
				res[ri] = v
			}
			ri++
		}
	}
	return res
}
