package main

// Engine-provided models of functions that have no Go body (assembly, runtime) or that
// are not worth interpreting (logging, formatting, locks in sequential code).

import (
	"fmt"
	"go/types"
	"math"
	"strings"

	"golang.org/x/tools/go/ssa"
)

type intrinsic func(c *Ctx, fr *Frame, fn *ssa.Function, args []Value) Value

var intrinsics = map[string]intrinsic{}
var pureIntrinsics = map[string]bool{}

func init() {
	base := map[string]intrinsic{
		"internal/bytealg.IndexByteString": inIndexByteString,
		"internal/bytealg.IndexByte":       inIndexByte,
		"internal/bytealg.IndexString":     inIndexString,
		"internal/bytealg.Index":           inIndexBytes,
		"internal/bytealg.CountString":     inCountString,
		"internal/bytealg.Count":           inCountBytes,
		"internal/bytealg.Equal":           inBytesEqual,
		"internal/bytealg.MakeNoZero":      inMakeNoZero,
		"internal/bytealg.Compare":         inBytesCompare,
		"strings.Index":                    inIndexString,
		"strings.IndexByte":                inIndexByteString,
		"strings.Contains":                 inContains,
		"strings.LastIndex":                inLastIndexString,
		"internal/stringslite.Index":       inIndexString,
		"internal/stringslite.IndexByte":   inIndexByteString,
		"bytes.IndexByte":                  inIndexByte,
		"bytes.Index":                      inIndexBytes,
		"bytes.Equal":                      inBytesEqual,
		"strings.Compare":                  inStrCompare,
		"internal/abi.NoEscape":            func(c *Ctx, fr *Frame, fn *ssa.Function, a []Value) Value { return a[0] },
		"internal/abi.Escape":              func(c *Ctx, fr *Frame, fn *ssa.Function, a []Value) Value { return a[0] },
		"(*strings.Builder).String":        inBuilderString,
		"(*strings.Builder).copyCheck":     inNop,
		"math.Float32bits":                 inFloatBits,
		"math.Float64bits":                 inFloatBits,
		"math.Float32frombits":             inFloatFromBits,
		"math.Float64frombits":             inFloatFromBits,
		"math.Exp":                         inMathUnary,
		"math.Sqrt":                        inMathUnary,
		"math.Log":                         inMathUnary,
		"math.Floor":                       inMathUnary,
		"math.Ceil":                        inMathUnary,
		"math.Trunc":                       inMathUnary,
		"math.Abs":                         inMathUnary,
		"math.Pow":                         inMathPow,
		"math.IsNaN":                       inIsNaN,
		"math.IsInf":                       inIsInf,
		"errors.Is":                        inErrorsIs,
		"errors.As":                        inErrorsAs,
		"fmt.Errorf":                       inErrorf,
		"fmt.Sprintf":                      inSprintf,
		"fmt.Sprint":                       inSprint,
		"fmt.Sprintln":                     inSprint,
		"fmt.Fprintf":                      inNopZero,
		"fmt.Fprintln":                     inNopZero,
		"fmt.Fprint":                       inNopZero,
		"fmt.Printf":                       inNopZero,
		"fmt.Println":                      inNopZero,
		"fmt.Print":                        inNopZero,
		"fmt.Sscanf":                       inSscanf,
		"runtime.GC":                       inNop,
		"runtime.Gosched":                  inNop,
		"runtime.KeepAlive":                inNop,
		"runtime.SetFinalizer":             inNop,
		"runtime.GOMAXPROCS":               func(c *Ctx, fr *Frame, fn *ssa.Function, a []Value) Value { return c.tb.Int(16, 64) },
		"runtime.NumCPU":                   func(c *Ctx, fr *Frame, fn *ssa.Function, a []Value) Value { return c.tb.Int(16, 64) },
		"os.Getenv":                        inGetenv,
		"os.LookupEnv":                     inLookupEnv,
		"os.Setenv":                        inSetenv,
		"reflect.DeepEqual":                inDeepEqual,
		"(*sync.Mutex).Lock":               inMutexLock,
		"(*sync.Mutex).Unlock":             inMutexUnlock,
		"(*sync.Mutex).TryLock":            inMutexTryLock,
		"(*sync.RWMutex).Lock":             inMutexLock,
		"(*sync.RWMutex).Unlock":           inMutexUnlock,
		"(*sync.RWMutex).RLock":            inMutexLock,
		"(*sync.RWMutex).RUnlock":          inMutexUnlock,
		"(*sync.Once).Do":                  inOnceDo,
		"(*sync.WaitGroup).Add":            inWGAdd,
		"(*sync.WaitGroup).Done":           inWGDone,
		"(*sync.WaitGroup).Wait":           inWGWait,
		"sort.Sort":                        nil, // interpreted
	}
	delete(base, "sort.Sort")
	for k, v := range base {
		intrinsics[k] = v
	}
	for _, n := range []string{
		"internal/bytealg.IndexByteString", "internal/bytealg.IndexString", "internal/bytealg.CountString",
		"strings.Index", "strings.IndexByte", "strings.Contains", "strings.LastIndex", "internal/stringslite.Index",
		"internal/stringslite.IndexByte", "math.Float32bits", "math.Float64bits", "math.Float32frombits",
		"math.Float64frombits", "math.IsNaN", "math.IsInf", "strings.Compare", "internal/abi.NoEscape",
	} {
		pureIntrinsics[n] = true
	}
	registerAtomics()
}

func (c *Ctx) externalFallback(name string) intrinsic {
	switch {
	case strings.HasPrefix(name, "log/slog."), strings.HasPrefix(name, "(*log/slog.Logger)."), strings.HasPrefix(name, "log."), strings.HasPrefix(name, "(*log.Logger)."):
		return inNopZero
	}
	return nil
}

func (c *Ctx) callIntrinsicValue(fr *Frame, cl *Closure, args []Value, site *ssa.CallCommon) Value {
	if strings.HasPrefix(cl.intr, "builtin:") {
		return c.builtin(fr, cl.intr[8:], args, site)
	}
	if f, ok := closureIntrinsics[cl.intr]; ok {
		return f(c, fr, cl, args)
	}
	panic(unsupported("intrinsic closure " + cl.intr))
}

var closureIntrinsics = map[string]func(c *Ctx, fr *Frame, cl *Closure, args []Value) Value{}

func inNop(c *Ctx, fr *Frame, fn *ssa.Function, a []Value) Value { return nil }

// inNopZero returns the zero value(s) of the function's results.
func inNopZero(c *Ctx, fr *Frame, fn *ssa.Function, a []Value) Value {
	res := fn.Signature.Results()
	switch res.Len() {
	case 0:
		return nil
	case 1:
		return c.zero(res.At(0).Type())
	}
	return c.zero(res)
}

// --- slog / log are matched by prefix in call(); see World.logLike

func isLogLike(name string) bool {
	return strings.HasPrefix(name, "log/slog.") || strings.HasPrefix(name, "(*log/slog.Logger).") ||
		strings.HasPrefix(name, "log.") || strings.HasPrefix(name, "(*log.Logger).")
}

// ---------------------------------------------------------------------------
// byte/str search

func (c *Ctx) sliceBytes(s Slice) ([]*Term, *Term) {
	if s.arr == nil {
		return nil, c.tb.Int(0, 64)
	}
	phys := c.physLen(s)
	out := make([]*Term, phys)
	for i := range out {
		out[i] = s.arr.elems[s.off+i].(*Term)
	}
	return out, s.n
}

func (c *Ctx) indexByte(bs []*Term, n *Term, ch *Term) *Term {
	tb := c.tb
	res := tb.Int(-1, 64)
	for p := len(bs) - 1; p >= 0; p-- {
		m := tb.And(tb.Bin("bvult", tb.Int(int64(p), 64), n), tb.Eq(bs[p], ch))
		res = tb.Ite(m, tb.Int(int64(p), 64), res)
	}
	return res
}

func (c *Ctx) indexSub(fr *Frame, bs []*Term, n *Term, sub []*Term, subN *Term, last bool) *Term {
	tb := c.tb
	m := int(c.concretize(fr, subN, "needle length"))
	res := tb.Int(-1, 64)
	from, to, step := len(bs)-m, -1, -1
	if last {
		from, to, step = 0, len(bs)-m+1, 1
	}
	for p := from; p != to; p += step {
		if p < 0 {
			break
		}
		match := tb.Bin("bvule", tb.Int(int64(p+m), 64), n)
		for j := 0; j < m && !match.IsFalse(); j++ {
			match = tb.And(match, tb.Eq(bs[p+j], sub[j]))
		}
		res = tb.Ite(match, tb.Int(int64(p), 64), res)
	}
	return res
}

func inIndexByteString(c *Ctx, fr *Frame, fn *ssa.Function, a []Value) Value {
	s := a[0].(Str)
	ch := a[1].(*Term)
	if s.b == nil && ch.isC {
		return c.tb.Int(int64(strings.IndexByte(s.c, byte(ch.cval))), 64)
	}
	return c.indexByte(c.strBytes(s), c.strLen(s), ch)
}

func inIndexByte(c *Ctx, fr *Frame, fn *ssa.Function, a []Value) Value {
	bs, n := c.sliceBytes(a[0].(Slice))
	return c.indexByte(bs, n, a[1].(*Term))
}

func inIndexString(c *Ctx, fr *Frame, fn *ssa.Function, a []Value) Value {
	s, sub := a[0].(Str), a[1].(Str)
	if s.b == nil && sub.b == nil {
		return c.tb.Int(int64(strings.Index(s.c, sub.c)), 64)
	}
	return c.indexSub(fr, c.strBytes(s), c.strLen(s), c.strBytes(sub), c.strLen(sub), false)
}

func inLastIndexString(c *Ctx, fr *Frame, fn *ssa.Function, a []Value) Value {
	s, sub := a[0].(Str), a[1].(Str)
	if s.b == nil && sub.b == nil {
		return c.tb.Int(int64(strings.LastIndex(s.c, sub.c)), 64)
	}
	return c.indexSub(fr, c.strBytes(s), c.strLen(s), c.strBytes(sub), c.strLen(sub), true)
}

func inContains(c *Ctx, fr *Frame, fn *ssa.Function, a []Value) Value {
	r := inIndexString(c, fr, fn, a).(*Term)
	return c.tb.Not(c.tb.Bin("bvslt", r, c.tb.Int(0, 64)))
}

func inIndexBytes(c *Ctx, fr *Frame, fn *ssa.Function, a []Value) Value {
	bs, n := c.sliceBytes(a[0].(Slice))
	sub, sn := c.sliceBytes(a[1].(Slice))
	return c.indexSub(fr, bs, n, sub, sn, false)
}

func (c *Ctx) countByte(bs []*Term, n *Term, ch *Term) *Term {
	tb := c.tb
	res := tb.Int(0, 64)
	for p := 0; p < len(bs); p++ {
		m := tb.And(tb.Bin("bvult", tb.Int(int64(p), 64), n), tb.Eq(bs[p], ch))
		res = tb.Bin("bvadd", res, tb.Ite(m, tb.Int(1, 64), tb.Int(0, 64)))
	}
	return res
}

func inCountString(c *Ctx, fr *Frame, fn *ssa.Function, a []Value) Value {
	s := a[0].(Str)
	return c.countByte(c.strBytes(s), c.strLen(s), a[1].(*Term))
}

func inCountBytes(c *Ctx, fr *Frame, fn *ssa.Function, a []Value) Value {
	bs, n := c.sliceBytes(a[0].(Slice))
	return c.countByte(bs, n, a[1].(*Term))
}

func inBytesEqual(c *Ctx, fr *Frame, fn *ssa.Function, a []Value) Value {
	x := c.bytesToStr(fr, a[0].(Slice))
	y := c.bytesToStr(fr, a[1].(Slice))
	return c.strEq(x, y)
}

func inBytesCompare(c *Ctx, fr *Frame, fn *ssa.Function, a []Value) Value {
	x := c.bytesToStr(fr, a[0].(Slice))
	y := c.bytesToStr(fr, a[1].(Slice))
	return c.strCompare(x, y)
}

func inStrCompare(c *Ctx, fr *Frame, fn *ssa.Function, a []Value) Value {
	return c.strCompare(a[0].(Str), a[1].(Str))
}

func (c *Ctx) strCompare(x, y Str) *Term {
	tb := c.tb
	return tb.Ite(c.strEq(x, y), tb.Int(0, 64), tb.Ite(c.strLess(x, y, false), tb.Int(-1, 64), tb.Int(1, 64)))
}

func inMakeNoZero(c *Ctx, fr *Frame, fn *ssa.Function, a []Value) Value {
	n := a[0].(*Term)
	return c.makeSlice(fr, types.NewSlice(types.Typ[types.Uint8]), n, n)
}

func inBuilderString(c *Ctx, fr *Frame, fn *ssa.Function, a []Value) Value {
	p := a[0].(Ptr)
	b := (*p.p).(Agg)
	// struct { addr *Builder; buf []byte }
	return c.bytesToStr(fr, b[1].(Slice))
}

// ---------------------------------------------------------------------------
// math

func inFloatBits(c *Ctx, fr *Frame, fn *ssa.Function, a []Value) Value {
	t := a[0].(*Term)
	if t.isC {
		return c.tb.Const(t.cval, Sort{W: t.s.W})
	}
	if t.op == "bits2f32" || t.op == "bits2f64" {
		// NaN payloads are not preserved by SMT floats; callers that care must not round-trip
		return t.args[0]
	}
	panic(unsupported("Float bits of symbolic float"))
}

func inFloatFromBits(c *Ctx, fr *Frame, fn *ssa.Function, a []Value) Value {
	t := a[0].(*Term)
	if t.isC {
		return &Term{isC: true, cval: t.cval, s: Sort{W: t.s.W, F: true}}
	}
	return c.tb.mk(fmt.Sprintf("bits2f%d", t.s.W), Sort{W: t.s.W, F: true}, 0, 0, t)
}

func inMathUnary(c *Ctx, fr *Frame, fn *ssa.Function, a []Value) Value {
	t := a[0].(*Term)
	if t.isC {
		f := t.f64()
		var r float64
		switch fn.Name() {
		case "Exp":
			r = math.Exp(f)
		case "Sqrt":
			r = math.Sqrt(f)
		case "Log":
			r = math.Log(f)
		case "Floor":
			r = math.Floor(f)
		case "Ceil":
			r = math.Ceil(f)
		case "Trunc":
			r = math.Trunc(f)
		case "Abs":
			r = math.Abs(f)
		}
		return c.tb.F64(r)
	}
	if c.w.cfg.FloatMode == "abstract" && fn.Name() == "Exp" {
		return c.absFloat("math.Exp", t, t)
	}
	panic(unsupported("math." + fn.Name() + " of symbolic float"))
}

func inMathPow(c *Ctx, fr *Frame, fn *ssa.Function, a []Value) Value {
	x, y := a[0].(*Term), a[1].(*Term)
	if x.isC && y.isC {
		return c.tb.F64(math.Pow(x.f64(), y.f64()))
	}
	panic(unsupported("math.Pow of symbolic float"))
}

func inIsNaN(c *Ctx, fr *Frame, fn *ssa.Function, a []Value) Value {
	t := a[0].(*Term)
	if t.isC {
		return c.tb.Bool(math.IsNaN(t.f64()))
	}
	return c.tb.mk("fp.isNaN", SBool, 0, 0, t)
}

func inIsInf(c *Ctx, fr *Frame, fn *ssa.Function, a []Value) Value {
	t := a[0].(*Term)
	sign := a[1].(*Term)
	if t.isC && sign.isC {
		return c.tb.Bool(math.IsInf(t.f64(), int(sign.Int64())))
	}
	if !sign.isC {
		panic(unsupported("IsInf with symbolic sign"))
	}
	tb := c.tb
	inf := tb.mk("fp.isInfinite", SBool, 0, 0, t)
	neg := tb.mk("fp.isNegative", SBool, 0, 0, t)
	switch s := sign.Int64(); {
	case s > 0:
		return tb.And(inf, tb.Not(neg))
	case s < 0:
		return tb.And(inf, neg)
	}
	return inf
}

// ---------------------------------------------------------------------------
// errors, fmt

func (w *World) namedType(pkg, name string) types.Type {
	p := w.byPath[pkg]
	if p == nil {
		return nil
	}
	if m := p.Members[name]; m != nil {
		return m.Type()
	}
	return nil
}

func (c *Ctx) newError(msg Str) Value {
	t := c.w.namedType("errors", "errorString")
	if t == nil {
		panic(unsupported("errors.errorString type not loaded"))
	}
	cell := new(Value)
	*cell = Agg{msg}
	return Iface{t: types.NewPointer(t), v: Ptr{p: cell}}
}

func (c *Ctx) newWrapError(msg Str, inner Value) Value {
	t := c.w.namedType("fmt", "wrapError")
	if t == nil {
		return c.newError(msg)
	}
	cell := new(Value)
	*cell = Agg{msg, inner}
	return Iface{t: types.NewPointer(t), v: Ptr{p: cell}}
}

func (c *Ctx) errorText(i Iface) string {
	if p, ok := i.v.(Ptr); ok && p.p != nil {
		if a, ok := (*p.p).(Agg); ok && len(a) > 0 {
			if s, ok := a[0].(Str); ok && s.b == nil {
				return s.c
			}
		}
	}
	if s, ok := i.v.(Str); ok && s.b == nil {
		return s.c
	}
	return ""
}

func (c *Ctx) variadicArgs(v Value) []Value {
	s, ok := v.(Slice)
	if !ok || s.arr == nil {
		return nil
	}
	n := int(s.n.cval)
	return s.arr.elems[s.off : s.off+n]
}

// formatBestEffort renders format+args; symbolic or non-basic arguments become "?".
func (c *Ctx) formatBestEffort(format string, args []Value) string {
	var goArgs []any
	for _, a := range args {
		goArgs = append(goArgs, c.toGo(a))
	}
	return fmt.Sprintf(format, goArgs...)
}

type symPlaceholder struct{}

func (symPlaceholder) String() string             { return "?" }
func (symPlaceholder) Format(f fmt.State, r rune) { f.Write([]byte("?")) }

func (c *Ctx) toGo(a Value) any {
	switch x := a.(type) {
	case Iface:
		if x.t == nil {
			return nil
		}
		switch v := x.v.(type) {
		case *Term:
			if !v.isC {
				return symPlaceholder{}
			}
			if b, ok := x.t.Underlying().(*types.Basic); ok {
				switch {
				case b.Info()&types.IsBoolean != 0:
					return v.cval == 1
				case b.Info()&types.IsUnsigned != 0:
					switch v.s.W {
					case 8:
						return uint8(v.cval)
					case 16:
						return uint16(v.cval)
					case 32:
						return uint32(v.cval)
					}
					return v.cval
				case b.Info()&types.IsInteger != 0:
					switch v.s.W {
					case 8:
						return int8(v.Int64())
					case 16:
						return int16(v.Int64())
					case 32:
						return int32(v.Int64())
					}
					return v.Int64()
				case b.Info()&types.IsFloat != 0:
					return v.fval()
				}
			}
			return symPlaceholder{}
		case Str:
			if v.b == nil {
				return v.c
			}
			return symPlaceholder{}
		case Ptr:
			if s := c.errorText(x); s != "" {
				return s
			}
			return symPlaceholder{}
		case Slice:
			// a []byte with concrete length and contents (for %x, %s, %q)
			if st, ok := x.t.Underlying().(*types.Slice); ok && v.n.isC {
				if eb, ok := st.Elem().Underlying().(*types.Basic); ok && eb.Kind() == types.Uint8 {
					if v.arr == nil {
						return []byte(nil)
					}
					bs := make([]byte, int(v.n.cval))
					for i := range bs {
						t, ok := v.arr.elems[v.off+i].(*Term)
						if !ok || !t.isC {
							return symPlaceholder{}
						}
						bs[i] = byte(t.cval)
					}
					return bs
				}
			}
			return symPlaceholder{}
		}
		return symPlaceholder{}
	}
	return symPlaceholder{}
}

func inErrorf(c *Ctx, fr *Frame, fn *ssa.Function, a []Value) Value {
	format := a[0].(Str)
	args := c.variadicArgs(a[1])
	msg := "<error>"
	if format.b == nil {
		msg = c.formatBestEffort(strings.ReplaceAll(format.c, "%w", "%v"), args)
		if strings.Contains(format.c, "%w") {
			for _, x := range args {
				if i, ok := x.(Iface); ok && i.t != nil && c.w.isErrorType(i.t) {
					return c.newWrapError(mkStr(msg), i)
				}
			}
		}
	}
	return c.newError(mkStr(msg))
}

func (w *World) isErrorType(t types.Type) bool {
	errT := types.Universe.Lookup("error").Type().Underlying().(*types.Interface)
	return w.implements(t, errT)
}

func inSprintf(c *Ctx, fr *Frame, fn *ssa.Function, a []Value) Value {
	format := a[0].(Str)
	args := c.variadicArgs(a[1])
	if format.b != nil {
		panic(unsupported("Sprintf with symbolic format"))
	}
	args = c.stringerArgs(fr, format.c, args)
	if r, ok := c.symbolicSprintf(fr, format.c, args); ok {
		return r
	}
	return mkStr(c.formatBestEffort(format.c, args))
}

// stringerArgs: an argument printed with %s / %v / %q whose dynamic type is not a basic type and has a
// String() string (or Error() string) method is replaced by that method's result, as fmt does. Without
// this two different values of such a type would both print as the placeholder "?".
func (c *Ctx) stringerArgs(fr *Frame, format string, args []Value) []Value {
	out := args
	ai := 0
	for i := 0; i < len(format); i++ {
		if format[i] != '%' {
			continue
		}
		k := i + 1
		for k < len(format) && strings.IndexByte("0123456789.+-# ", format[k]) >= 0 {
			k++
		}
		if k >= len(format) {
			break
		}
		verb := format[k]
		i = k
		if verb == '%' {
			continue
		}
		if ai >= len(args) {
			break
		}
		idx := ai
		ai++
		if verb != 's' && verb != 'v' && verb != 'q' {
			continue
		}
		iv, ok := args[idx].(Iface)
		if !ok || iv.t == nil {
			continue
		}
		if _, basic := iv.t.Underlying().(*types.Basic); basic {
			if _, named := iv.t.(*types.Named); !named {
				continue
			}
		}
		if _, isStr := iv.v.(Str); isStr {
			if _, named := iv.t.(*types.Named); !named {
				continue
			}
		}
		ms := c.w.prog.MethodSets.MethodSet(iv.t)
		for _, name := range []string{"Error", "String"} {
			var sel *types.Selection
			for j := 0; j < ms.Len(); j++ {
				if ms.At(j).Obj().Name() == name {
					sel = ms.At(j)
				}
			}
			if sel == nil {
				continue
			}
			sig, _ := sel.Type().(*types.Signature)
			if sig == nil || sig.Params().Len() != 0 || sig.Results().Len() != 1 || !types.Identical(sig.Results().At(0).Type(), types.Typ[types.String]) {
				continue
			}
			fn := c.w.prog.MethodValue(sel)
			if fn == nil || (fn.Blocks == nil && intrinsics[fn.String()] == nil) {
				continue
			}
			if name == "Error" && c.errorText(iv) != "" {
				break // the plain error types are rendered directly
			}
			if p, isPtr := iv.v.(Ptr); isPtr && p.p == nil && p.arr == nil {
				break // nil receiver: leave it to the placeholder
			}
			r := c.call(fr, fn, []Value{iv.v}, nil)
			if rs, isS := r.(Str); isS {
				if &out[0] == &args[0] {
					out = append([]Value{}, args...)
				}
				out[idx] = Iface{t: types.Typ[types.String], v: rs}
			}
			break
		}
	}
	return out
}

// symbolicSprintf handles the few verbs that matter with symbolic arguments: %s of a symbolic string,
// %02X / %02x of a symbolic byte, %d of a small symbolic non-negative integer (case split).
func (c *Ctx) symbolicSprintf(fr *Frame, format string, args []Value) (Value, bool) {
	anySym := false
	for _, a := range args {
		if i, ok := a.(Iface); ok && c.symbolicVal(i.v, 0) {
			anySym = true
		}
	}
	if !anySym {
		return nil, false
	}
	var out Value = Str{}
	ai := 0
	i := 0
	lit := func(s string) {
		if s != "" {
			out = c.strConcat(fr, out.(Str), mkStr(s))
		}
	}
	for i < len(format) {
		j := strings.IndexByte(format[i:], '%')
		if j < 0 {
			lit(format[i:])
			break
		}
		lit(format[i : i+j])
		i += j
		// parse verb
		k := i + 1
		for k < len(format) && strings.IndexByte("0123456789.+-# ", format[k]) >= 0 {
			k++
		}
		if k >= len(format) {
			return nil, false
		}
		verb := format[i : k+1]
		i = k + 1
		if verb == "%%" {
			lit("%")
			continue
		}
		if ai >= len(args) {
			return nil, false
		}
		arg := args[ai]
		ai++
		iv, _ := arg.(Iface)
		if verb == "%T" {
			// only the dynamic type is printed
			if iv.t == nil {
				lit("<nil>")
			} else {
				lit(types.TypeString(iv.t, func(p *types.Package) string { return p.Name() }))
			}
			continue
		}
		switch v := iv.v.(type) {
		case Str:
			if verb == "%s" || verb == "%v" {
				out = c.strConcat(fr, out.(Str), v)
				continue
			}
			if v.b == nil {
				lit(fmt.Sprintf(verb, v.c))
				continue
			}
			return nil, false
		case *Term:
			if v.isC {
				lit(fmt.Sprintf(verb, c.toGo(arg)))
				continue
			}
			if (verb == "%02X" || verb == "%02x") && v.s.W == 8 {
				digits := "0123456789ABCDEF"
				if verb == "%02x" {
					digits = "0123456789abcdef"
				}
				tab := make([]*Term, 16)
				for d := 0; d < 16; d++ {
					tab[d] = c.byteConst(digits[d])
				}
				hi := c.iteChain(c.tb.ZExt(c.tb.Bin("bvlshr", v, c.tb.Const(4, S8)), 64), tab)
				lo := c.iteChain(c.tb.ZExt(c.tb.Bin("bvand", v, c.tb.Const(15, S8)), 64), tab)
				out = c.strConcat(fr, out.(Str), Str{b: []*Term{hi, lo}, n: c.tb.Int(2, 64)})
				continue
			}
			// generic: case split the value
			cv := c.concretize(fr, v, "Sprintf argument")
			lit(fmt.Sprintf(verb, c.toGo(Iface{t: iv.t, v: c.tb.Const(cv, v.s)})))
			continue
		case Agg, Slice:
			var elems []Value
			if ag, ok := v.(Agg); ok {
				elems = ag
			} else {
				sl := c.concSliceLen(fr, v.(Slice))
				elems = sl.arr.elems[sl.off : sl.off+int(sl.n.cval)]
			}
			if verb != "%x" && verb != "%X" {
				return nil, false
			}
			digits := "0123456789abcdef"
			if verb == "%X" {
				digits = "0123456789ABCDEF"
			}
			tab := make([]*Term, 16)
			for d := 0; d < 16; d++ {
				tab[d] = c.byteConst(digits[d])
			}
			hexed := Str{b: make([]*Term, 0, 2*len(elems))}
			for _, e := range elems {
				bt, ok := e.(*Term)
				if !ok || bt.s != S8 {
					return nil, false
				}
				hexed.b = append(hexed.b, c.iteChain(c.tb.ZExt(c.tb.Bin("bvlshr", bt, c.tb.Const(4, S8)), 64), tab), c.iteChain(c.tb.ZExt(c.tb.Bin("bvand", bt, c.tb.Const(15, S8)), 64), tab))
			}
			hexed.n = c.tb.Int(int64(len(hexed.b)), 64)
			out = c.strConcat(fr, out.(Str), c.normStr(hexed))
			continue
		default:
			lit(fmt.Sprintf(verb, c.toGo(arg)))
		}
	}
	return out, true
}

func inSprint(c *Ctx, fr *Frame, fn *ssa.Function, a []Value) Value {
	args := c.variadicArgs(a[0])
	var goArgs []any
	for _, x := range args {
		goArgs = append(goArgs, c.toGo(x))
	}
	if fn.Name() == "Sprintln" {
		return mkStr(fmt.Sprintln(goArgs...))
	}
	return mkStr(fmt.Sprint(goArgs...))
}

// fmt.Sscanf(str, format, ptrs...) on concrete input, integer verbs only (tensor names "blk.%d.").
func inSscanf(c *Ctx, fr *Frame, fn *ssa.Function, a []Value) Value {
	s, f := c.normStr(a[0].(Str)), a[1].(Str)
	args := c.variadicArgs(a[2])
	if s.b != nil || f.b != nil {
		panic(unsupported("Sscanf on symbolic input"))
	}
	goPtrs := make([]any, len(args))
	ints := make([]int64, len(args))
	for i := range args {
		goPtrs[i] = &ints[i]
	}
	n, err := fmt.Sscanf(s.c, f.c, goPtrs...)
	for i := 0; i < n; i++ {
		iv := args[i].(Iface)
		p := iv.v.(Ptr)
		srt, _ := sortOfBasic(iv.t.Underlying().(*types.Pointer).Elem().Underlying().(*types.Basic))
		c.assign(p.p, c.tb.Const(uint64(ints[i]), srt))
	}
	var e Value = Iface{}
	if err != nil {
		e = c.newError(mkStr(err.Error()))
	}
	return Tuple{c.tb.Int(int64(n), 64), e}
}

func (c *Ctx) unwrapOnce(fr *Frame, e Iface) (Iface, bool) {
	if e.t == nil {
		return Iface{}, false
	}
	ms := c.w.prog.MethodSets.MethodSet(e.t)
	for i := 0; i < ms.Len(); i++ {
		sel := ms.At(i)
		if sel.Obj().Name() == "Unwrap" {
			sig := sel.Type().(*types.Signature)
			if sig.Params().Len() == 0 && sig.Results().Len() == 1 && types.Identical(sig.Results().At(0).Type(), types.Universe.Lookup("error").Type()) {
				fn := c.w.prog.MethodValue(sel)
				r := c.call(fr, fn, []Value{e.v}, nil)
				return r.(Iface), true
			}
		}
	}
	return Iface{}, false
}

func inErrorsIs(c *Ctx, fr *Frame, fn *ssa.Function, a []Value) Value {
	err, target := a[0].(Iface), a[1].(Iface)
	if err.t == nil || target.t == nil {
		return c.tb.Bool(err.t == nil && target.t == nil)
	}
	for depth := 0; depth < 20; depth++ {
		if types.Comparable(target.t) {
			eq := c.valEq(fr, err, target)
			if !eq.isC {
				panic(unsupported("errors.Is with symbolic comparison"))
			}
			if eq.cval == 1 {
				return c.tb.Bool(true)
			}
		}
		// Is(error) bool method
		ms := c.w.prog.MethodSets.MethodSet(err.t)
		for i := 0; i < ms.Len(); i++ {
			sel := ms.At(i)
			if sel.Obj().Name() == "Is" {
				sig := sel.Type().(*types.Signature)
				if sig.Params().Len() == 1 && sig.Results().Len() == 1 {
					m := c.w.prog.MethodValue(sel)
					r := c.call(fr, m, []Value{err.v, target}, nil).(*Term)
					if c.branch(r, fr) {
						return c.tb.Bool(true)
					}
				}
			}
		}
		next, ok := c.unwrapOnce(fr, err)
		if !ok || next.t == nil {
			return c.tb.Bool(false)
		}
		err = next
	}
	return c.tb.Bool(false)
}

func inErrorsAs(c *Ctx, fr *Frame, fn *ssa.Function, a []Value) Value {
	err, target := a[0].(Iface), a[1].(Iface)
	if target.t == nil {
		panic(unsupported("errors.As nil target"))
	}
	pt := target.t.Underlying().(*types.Pointer).Elem()
	p := target.v.(Ptr)
	for depth := 0; depth < 20 && err.t != nil; depth++ {
		if it, isI := pt.Underlying().(*types.Interface); isI {
			if c.w.implements(err.t, it) {
				c.assign(p.p, err)
				return c.tb.Bool(true)
			}
		} else if types.Identical(err.t, pt) {
			c.assign(p.p, err.v)
			return c.tb.Bool(true)
		}
		next, ok := c.unwrapOnce(fr, err)
		if !ok {
			break
		}
		err = next
	}
	return c.tb.Bool(false)
}

// ---------------------------------------------------------------------------
// environment

func inGetenv(c *Ctx, fr *Frame, fn *ssa.Function, a []Value) Value {
	k := a[0].(Str)
	if c.envTab == nil {
		c.envTab = map[string]Value{}
	}
	if v, ok := c.envTab[k.c]; ok {
		return v
	}
	return mkStr(c.w.cfg.Env[k.c])
}

func inLookupEnv(c *Ctx, fr *Frame, fn *ssa.Function, a []Value) Value {
	k := a[0].(Str)
	if v, ok := c.envTab[k.c]; ok {
		return Tuple{v, c.tb.Bool(true)}
	}
	v, ok := c.w.cfg.Env[k.c]
	return Tuple{mkStr(v), c.tb.Bool(ok)}
}

func inSetenv(c *Ctx, fr *Frame, fn *ssa.Function, a []Value) Value {
	if c.envTab == nil {
		c.envTab = map[string]Value{}
	}
	c.envTab[a[0].(Str).c] = a[1]
	return Iface{}
}

// ---------------------------------------------------------------------------
// reflect.DeepEqual on acyclic values

func inDeepEqual(c *Ctx, fr *Frame, fn *ssa.Function, a []Value) Value {
	return c.deepEq(fr, a[0], a[1], 0)
}

func (c *Ctx) deepEq(fr *Frame, x, y Value, depth int) *Term {
	tb := c.tb
	if depth > 12 {
		panic(unsupported("DeepEqual too deep (cyclic?)"))
	}
	switch x := x.(type) {
	case Iface:
		yi, ok := y.(Iface)
		if !ok {
			return tb.Bool(false)
		}
		if x.t == nil || yi.t == nil {
			return tb.Bool(x.t == nil && yi.t == nil)
		}
		if !types.Identical(x.t, yi.t) {
			return tb.Bool(false)
		}
		return c.deepEq(fr, x.v, yi.v, depth+1)
	case *Term:
		return tb.Eq(x, y.(*Term))
	case Str:
		return c.strEq(x, y.(Str))
	case Agg:
		ya := y.(Agg)
		r := tb.Bool(true)
		for i := range x {
			r = tb.And(r, c.deepEq(fr, x[i], ya[i], depth+1))
		}
		return r
	case Ptr:
		yp := y.(Ptr)
		if x.p == yp.p {
			return tb.Bool(true)
		}
		if x.p == nil || yp.p == nil {
			return tb.Bool(false)
		}
		return c.deepEq(fr, *x.p, *yp.p, depth+1)
	case Slice:
		ys := y.(Slice)
		if (x.arr == nil) != (ys.arr == nil) {
			return tb.Bool(false)
		}
		if !x.n.isC || !ys.n.isC {
			panic(unsupported("DeepEqual on symbolic-length slices"))
		}
		if x.n.cval != ys.n.cval {
			return tb.Bool(false)
		}
		r := tb.Bool(true)
		for i := 0; i < int(x.n.cval); i++ {
			r = tb.And(r, c.deepEq(fr, x.arr.elems[x.off+i], ys.arr.elems[ys.off+i], depth+1))
		}
		return r
	case *Map:
		ym := y.(*Map)
		if (x == nil) != (ym == nil) {
			return tb.Bool(false)
		}
		if x == nil {
			return tb.Bool(true)
		}
		if x.live != ym.live {
			return tb.Bool(false)
		}
		r := tb.Bool(true)
		for _, e := range x.entries {
			if e.deleted {
				continue
			}
			v, ok := c.mapGet(fr, ym, e.k)
			if !ok {
				return tb.Bool(false)
			}
			r = tb.And(r, c.deepEq(fr, e.v, v, depth+1))
		}
		return r
	case *Closure:
		yc, _ := y.(*Closure)
		return tb.Bool(x == nil && yc == nil)
	case nil:
		return tb.Bool(y == nil)
	}
	panic(unsupported(fmt.Sprintf("DeepEqual on %T", x)))
}

// bytes.Repeat(b, count) with a symbolic count: a slice of symbolic length whose physical
// contents repeat b (no case split on the count).
func inBytesRepeat(c *Ctx, fr *Frame, fn *ssa.Function, a []Value) Value {
	tb := c.tb
	b := c.concSliceLen(fr, a[0].(Slice))
	count := a[1].(*Term)
	c.obligation(fr, tb.Bin("bvslt", count, tb.Int(0, 64)), "panic:explicit", "bytes: negative Repeat count")
	l := int(b.n.cval)
	if l == 0 {
		return Slice{arr: &Array{}, n: tb.Int(0, 64)}
	}
	var phys int
	if count.isC {
		phys = int(count.cval) * l
		if phys > c.w.cfg.MaxConcreteAlloc {
			c.incomplete("bytes.Repeat result exceeds engine bound")
			panic(pathEnd{"alloc too large"})
		}
	} else {
		phys = c.w.cfg.MaxSymAlloc / l * l
		c.assume(fr, tb.Bin("bvule", count, tb.Int(int64(phys/l), 64)), "Repeat count within engine bound")
	}
	n := tb.Bin("bvmul", count, tb.Int(int64(l), 64))
	c.allocHook(fr, n, 1)
	arr := &Array{elems: make([]Value, phys)}
	for i := range arr.elems {
		arr.elems[i] = b.arr.elems[b.off+i%l]
	}
	return Slice{arr: arr, n: n, cap: phys}
}

func init() { intrinsics["bytes.Repeat"] = inBytesRepeat }

// strings.EqualFold for ASCII operands (stated cut: operands containing bytes >= 0x80 are not followed).
func inEqualFold(c *Ctx, fr *Frame, fn *ssa.Function, a []Value) Value {
	x, y := a[0].(Str), a[1].(Str)
	if x.b == nil && y.b == nil {
		return c.tb.Bool(strings.EqualFold(x.c, y.c))
	}
	tb := c.tb
	xb, yb := c.strBytes(x), c.strBytes(y)
	xn, yn := c.strLen(x), c.strLen(y)
	ascii := tb.Bool(true)
	for k, b := range xb {
		ascii = tb.And(ascii, tb.Implies(tb.Bin("bvult", tb.Int(int64(k), 64), xn), tb.Bin("bvult", b, tb.Const(0x80, S8))))
	}
	for k, b := range yb {
		ascii = tb.And(ascii, tb.Implies(tb.Bin("bvult", tb.Int(int64(k), 64), yn), tb.Bin("bvult", b, tb.Const(0x80, S8))))
	}
	if c.merging > 0 {
		// inside merged code an assumption cannot be placed; require it as an obligation-free side condition
		c.noMerge("EqualFold on symbolic operands")
	}
	c.assume(fr, ascii, "EqualFold operands are ASCII (engine bound)")
	lower := func(b *Term) *Term {
		up := tb.And(tb.Bin("bvule", tb.Const('A', S8), b), tb.Bin("bvule", b, tb.Const('Z', S8)))
		return tb.Ite(up, tb.Bin("bvadd", b, tb.Const(32, S8)), b)
	}
	r := tb.Eq(xn, yn)
	m := min(len(xb), len(yb))
	if len(xb) != len(yb) {
		r = tb.And(r, tb.Bin("bvule", xn, tb.Int(int64(m), 64)))
	}
	for k := 0; k < m; k++ {
		r = tb.And(r, tb.Implies(tb.Bin("bvult", tb.Int(int64(k), 64), xn), tb.Eq(lower(xb[k]), lower(yb[k]))))
	}
	return r
}

func init() { intrinsics["strings.EqualFold"] = inEqualFold }

// strings.ToUpper / ToLower for ASCII operands (stated cut as for EqualFold).
func inToUpperLower(c *Ctx, fr *Frame, fn *ssa.Function, a []Value) Value {
	x := a[0].(Str)
	upper := fn.Name() == "ToUpper"
	if x.b == nil {
		if upper {
			return mkStr(strings.ToUpper(x.c))
		}
		return mkStr(strings.ToLower(x.c))
	}
	tb := c.tb
	c.noMerge("ToUpper/ToLower on symbolic operand")
	ascii := tb.Bool(true)
	for k, b := range x.b {
		ascii = tb.And(ascii, tb.Implies(tb.Bin("bvult", tb.Int(int64(k), 64), x.n), tb.Bin("bvult", b, tb.Const(0x80, S8))))
	}
	c.assume(fr, ascii, "ToUpper/ToLower operand is ASCII (engine bound)")
	out := Str{b: make([]*Term, len(x.b)), n: x.n}
	for k, b := range x.b {
		if upper {
			lo := tb.And(tb.Bin("bvule", tb.Const('a', S8), b), tb.Bin("bvule", b, tb.Const('z', S8)))
			out.b[k] = tb.Ite(lo, tb.Bin("bvsub", b, tb.Const(32, S8)), b)
		} else {
			up := tb.And(tb.Bin("bvule", tb.Const('A', S8), b), tb.Bin("bvule", b, tb.Const('Z', S8)))
			out.b[k] = tb.Ite(up, tb.Bin("bvadd", b, tb.Const(32, S8)), b)
		}
	}
	return out
}

func init() {
	intrinsics["strings.ToUpper"] = inToUpperLower
	intrinsics["strings.ToLower"] = inToUpperLower
}

// strings.IndexAny / LastIndexAny with a concrete all-ASCII character set: position of the
// first / last byte of s that is in the set (ASCII bytes never occur inside multi-byte
// sequences, so byte-wise and rune-wise scanning agree).
func inIndexAny(c *Ctx, fr *Frame, fn *ssa.Function, a []Value) Value {
	s, chars := a[0].(Str), c.normStr(a[1].(Str))
	last := fn.Name() == "LastIndexAny"
	if chars.b != nil {
		panic(unsupported("IndexAny with symbolic character set"))
	}
	if s.b == nil {
		if last {
			return c.tb.Int(int64(strings.LastIndexAny(s.c, chars.c)), 64)
		}
		return c.tb.Int(int64(strings.IndexAny(s.c, chars.c)), 64)
	}
	for i := 0; i < len(chars.c); i++ {
		if chars.c[i] >= 0x80 {
			panic(unsupported("IndexAny with non-ASCII character set on symbolic string"))
		}
	}
	tb := c.tb
	res := tb.Int(-1, 64)
	bs := s.b
	member := func(b *Term) *Term {
		m := tb.Bool(false)
		for i := 0; i < len(chars.c); i++ {
			m = tb.Or(m, tb.Eq(b, c.byteConst(chars.c[i])))
		}
		return m
	}
	if last {
		for p := 0; p < len(bs); p++ {
			hit := tb.And(tb.Bin("bvult", tb.Int(int64(p), 64), s.n), member(bs[p]))
			res = tb.Ite(hit, tb.Int(int64(p), 64), res)
		}
	} else {
		for p := len(bs) - 1; p >= 0; p-- {
			hit := tb.And(tb.Bin("bvult", tb.Int(int64(p), 64), s.n), member(bs[p]))
			res = tb.Ite(hit, tb.Int(int64(p), 64), res)
		}
	}
	return res
}

func init() {
	intrinsics["strings.IndexAny"] = inIndexAny
	intrinsics["strings.LastIndexAny"] = inIndexAny
	pureIntrinsics["strings.IndexAny"] = true
	pureIntrinsics["strings.LastIndexAny"] = true
}

// time: a logical clock. Now() returns strictly increasing instants (ext field, wall = 0).
func inTimeNow(c *Ctx, fr *Frame, fn *ssa.Function, a []Value) Value {
	c.clock += 1000
	return Agg{c.tb.Const(0, S64), c.tb.Int(c.clock, 64), Ptr{}}
}

func init() {
	intrinsics["time.Now"] = inTimeNow
	intrinsics["time.Since"] = func(c *Ctx, fr *Frame, fn *ssa.Function, a []Value) Value { return c.tb.Int(1000, 64) }
	intrinsics["time.Until"] = func(c *Ctx, fr *Frame, fn *ssa.Function, a []Value) Value { return c.tb.Int(1000, 64) }
	intrinsics["time.Sleep"] = func(c *Ctx, fr *Frame, fn *ssa.Function, a []Value) Value {
		if c.sched != nil {
			c.sched.yield(fr, "sleep")
		}
		return nil
	}
}
