package main

// gosym: solver-based bounded checking of Go code through go/ssa.
//
//   gosym run -job job.json -out result.json
//
// The job names a package of /repo, harness files injected into it through an overlay,
// and a list of entry points with bounds. Every run re-loads the package from the
// current working tree, so the encoding is regenerated from current source.

import (
	"encoding/json"
	"flag"
	"fmt"
	"go/types"
	"os"
	"path/filepath"
	"regexp"
	"runtime"
	"sort"
	"strings"
	"sync"
	"time"

	"golang.org/x/tools/go/packages"
	"golang.org/x/tools/go/ssa"
	"golang.org/x/tools/go/ssa/ssautil"
)

type JobFile struct {
	Dir          string            `json:"dir"`
	Pkg          string            `json:"pkg"`
	Files        []string          `json:"files"`
	Tests        bool              `json:"tests"`
	Defaults     json.RawMessage   `json:"defaults"`
	Jobs         []json.RawMessage `json:"jobs"`
	Solver       []string          `json:"solver"`
	Tags         []string          `json:"buildTags"`
	ParallelJobs int               `json:"parallelJobs"`
}

type JobResult struct {
	Name        string          `json:"name"`
	Entry       string          `json:"entry"`
	Args        []int64         `json:"args"`
	Config      Config          `json:"config"`
	Stats       Stats           `json:"stats"`
	Violations  []*Violation    `json:"violations"`
	Incomplete  map[string]int  `json:"incomplete"`
	Unsupported map[string]int  `json:"unsupported"`
	Blocked     map[string]int  `json:"blocked"`
	Cuts        map[string]int  `json:"cuts"`
	Reached     map[string]bool `json:"reached"`
	Functions   []string        `json:"functions"`
	MergeAborts map[string]int  `json:"mergeAborts"`
	Samples     []string        `json:"samples"`
	WallS       float64         `json:"wall_s"`
	SolverS     float64         `json:"solver_s"`
	Exhaustive  bool            `json:"exhaustive"`
	Note        string          `json:"note"`
}

type RunResult struct {
	Pkg     string       `json:"pkg"`
	LoadS   float64      `json:"load_s"`
	Jobs    []*JobResult `json:"jobs"`
	Error   string       `json:"error,omitempty"`
	Solver  []string     `json:"solver"`
	GoFiles []string     `json:"harness_files"`
}

func defaultConfig() Config {
	return Config{
		MaxDepth: 200, MaxSteps: 5_000_000, MaxPaths: 0, MaxSymAlloc: 64, MaxConcreteAlloc: 1 << 22,
		MaxSymStore: 64, MaxFanout: 256, Merge: true, TimeoutMs: 30000, FirstTimeoutMs: 1500, Workers: runtime.NumCPU(),
		Unwind: 96, TimeBudgetS: 0, MaxGoroutines: 40,
	}
}

var pkgClause = regexp.MustCompile(`(?m)^package\s+(\w+)`)

func main() {
	if len(os.Args) < 2 {
		fmt.Fprintln(os.Stderr, "usage: gosym run -job job.json -out result.json")
		os.Exit(2)
	}
	switch os.Args[1] {
	case "run":
		fs := flag.NewFlagSet("run", flag.ExitOnError)
		job := fs.String("job", "", "job file")
		out := fs.String("out", "", "result file")
		only := fs.String("only", "", "run only jobs whose name contains this")
		verbose := fs.Bool("v", false, "verbose")
		fs.Parse(os.Args[2:])
		os.Exit(runJobs(*job, *out, *only, *verbose))
	case "lemmas":
		os.Exit(lemmaSelfCheck())
	default:
		fmt.Fprintln(os.Stderr, "unknown command", os.Args[1])
		os.Exit(2)
	}
}

func runJobs(jobPath, outPath, only string, verbose bool) int {
	data, err := os.ReadFile(jobPath)
	if err != nil {
		fmt.Fprintln(os.Stderr, err)
		return 2
	}
	var jf JobFile
	if err := json.Unmarshal(data, &jf); err != nil {
		fmt.Fprintln(os.Stderr, "job file:", err)
		return 2
	}
	if jf.Dir == "" {
		jf.Dir = "/repo"
	}
	if len(jf.Solver) > 0 {
		solverArgv = jf.Solver
	}
	res := &RunResult{Pkg: jf.Pkg, Solver: solverArgv, GoFiles: jf.Files}
	writeOut := func() {
		b, _ := json.MarshalIndent(res, "", " ")
		if outPath != "" {
			os.WriteFile(outPath, b, 0o644)
		} else {
			os.Stdout.Write(b)
		}
	}
	t0 := time.Now()
	prog, mainPkg, allPkgs, err := load(jf)
	if err != nil {
		res.Error = err.Error()
		writeOut()
		fmt.Fprintln(os.Stderr, "load error:", err)
		return 2
	}
	res.LoadS = time.Since(t0).Seconds()
	if verbose {
		fmt.Fprintf(os.Stderr, "loaded %s in %.1fs\n", jf.Pkg, res.LoadS)
	}
	rc := 0
	type pending struct {
		cfg  Config
		name string
	}
	var todo []pending
	for _, raw := range jf.Jobs {
		cfg := defaultConfig()
		if len(jf.Defaults) > 0 {
			if err := json.Unmarshal(jf.Defaults, &cfg); err != nil {
				fmt.Fprintln(os.Stderr, "defaults:", err)
				return 2
			}
		}
		var named struct {
			Name string `json:"name"`
		}
		json.Unmarshal(raw, &named)
		if err := json.Unmarshal(raw, &cfg); err != nil {
			fmt.Fprintln(os.Stderr, "job:", err)
			return 2
		}
		if only != "" && !strings.Contains(named.Name, only) {
			continue
		}
		todo = append(todo, pending{cfg, named.Name})
	}
	par := jf.ParallelJobs
	if par <= 0 {
		par = min(len(todo), 8)
	}
	if par < 1 {
		par = 1
	}
	results := make([]*JobResult, len(todo))
	sem := make(chan struct{}, par)
	var wg sync.WaitGroup
	var outMu sync.Mutex
	for i, p := range todo {
		if p.cfg.Workers <= 0 {
			p.cfg.Workers = runtime.NumCPU()
		}
		wg.Add(1)
		sem <- struct{}{}
		go func(i int, p pending) {
			defer wg.Done()
			defer func() { <-sem }()
			jr := runJob(prog, mainPkg, allPkgs, p.cfg, p.name)
			outMu.Lock()
			defer outMu.Unlock()
			results[i] = jr
			res.Jobs = res.Jobs[:0]
			for _, r := range results {
				if r != nil {
					res.Jobs = append(res.Jobs, r)
				}
			}
			if verbose {
				printJob(jr)
			}
			writeOut()
		}(i, p)
	}
	wg.Wait()
	writeOut()
	return rc
}

func trunc(s []string, n int) []string {
	if len(s) > n {
		return append(append([]string{}, s[:n]...), "…")
	}
	return s
}

func load(jf JobFile) (*ssa.Program, *ssa.Package, []*ssa.Package, error) {
	absDir, _ := filepath.Abs(filepath.Join(jf.Dir, jf.Pkg))
	overlay := map[string][]byte{}
	pkgName := ""
	type hf struct{ path, dir string }
	var hfs []hf
	for _, f := range jf.Files {
		h := hf{path: f, dir: absDir}
		if i := strings.LastIndex(f, "@"); i >= 0 { // "<file>@<package dir relative to the repo>": helper injected into another package
			h.path = f[:i]
			h.dir, _ = filepath.Abs(filepath.Join(jf.Dir, f[i+1:]))
		}
		hfs = append(hfs, h)
	}
	for _, h := range hfs {
		b, err := os.ReadFile(h.path)
		if err != nil {
			return nil, nil, nil, err
		}
		if m := pkgClause.FindSubmatch(b); m != nil && string(m[1]) != "PKG" && h.dir == absDir {
			pkgName = string(m[1])
		}
	}
	for _, h := range hfs {
		b, err := os.ReadFile(h.path)
		if err != nil {
			return nil, nil, nil, err
		}
		if m := pkgClause.FindSubmatch(b); m != nil && string(m[1]) == "PKG" {
			b = []byte(strings.Replace(string(b), "package PKG", "package "+pkgName, 1))
		}
		name := "zz_verif_" + filepath.Base(h.path)
		if jf.Tests && !strings.HasSuffix(name, "_test.go") && h.dir == absDir {
			name = strings.TrimSuffix(name, ".go") + "_test.go"
		}
		p := filepath.Join(h.dir, name)
		overlay[p] = b
		overlayFiles[p] = b
	}
	flags := []string{}
	if len(jf.Tags) > 0 {
		flags = append(flags, "-tags="+strings.Join(jf.Tags, ","))
	}
	cfg := &packages.Config{Mode: packages.LoadAllSyntax, Dir: jf.Dir, Overlay: overlay, Tests: jf.Tests, BuildFlags: flags}
	pkgs, err := packages.Load(cfg, jf.Pkg)
	if err != nil {
		return nil, nil, nil, err
	}
	var errs []string
	packages.Visit(pkgs, nil, func(p *packages.Package) {
		for _, e := range p.Errors {
			if len(errs) < 20 {
				errs = append(errs, e.Error())
			}
		}
	})
	if len(errs) > 0 {
		return nil, nil, nil, fmt.Errorf("package errors:\n%s", strings.Join(errs, "\n"))
	}
	prog, spkgs := ssautil.AllPackages(pkgs, ssa.InstantiateGenerics)
	prog.Build()
	var mainPkg *ssa.Package
	for i, p := range pkgs {
		// with Tests: choose the package variant that contains the test files (ID has "[")
		if spkgs[i] == nil {
			continue
		}
		if jf.Tests {
			if strings.Contains(p.ID, "[") && !strings.HasSuffix(p.ID, ".test]") || strings.Contains(p.ID, ".test]") && strings.HasSuffix(p.PkgPath, "_test") {
				if mainPkg == nil || strings.Contains(p.ID, "[") {
					if !strings.HasSuffix(p.PkgPath, ".test") {
						mainPkg = spkgs[i]
					}
				}
			}
		} else if mainPkg == nil {
			mainPkg = spkgs[i]
		}
	}
	if mainPkg == nil {
		for i := range pkgs {
			if spkgs[i] != nil {
				mainPkg = spkgs[i]
				break
			}
		}
	}
	if mainPkg == nil {
		return nil, nil, nil, fmt.Errorf("no SSA package for %s", jf.Pkg)
	}
	return prog, mainPkg, prog.AllPackages(), nil
}

func runJob(prog *ssa.Program, mainPkg *ssa.Package, all []*ssa.Package, cfg Config, name string) *JobResult {
	w := &World{prog: prog, mainPkg: mainPkg, pkgs: all, cfg: cfg}
	w.sizes = types.SizesFor("gc", "amd64")
	w.infos = map[*ssa.Function]*fnInfo{}
	w.methods = map[methodKey]*ssa.Function{}
	w.impls = map[implKey]bool{}
	w.byPath = map[string]*ssa.Package{}
	w.repoPrefix = "github.com/ollama/ollama"
	for _, p := range all {
		if _, ok := w.byPath[p.Pkg.Path()]; !ok || p == mainPkg {
			w.byPath[p.Pkg.Path()] = p
		}
	}
	w.replacements = map[string]*ssa.Function{}
	w.noMerge = map[string]bool{}
	w.forceMerge = map[string]bool{}
	for _, n := range cfg.NoMerge {
		w.noMerge[n] = true
	}
	for _, n := range cfg.ForceMerge {
		w.forceMerge[n] = true
	}
	jr := &JobResult{Name: name, Entry: cfg.Entry, Args: cfg.Args, Config: cfg}
	for impl, rep := range cfg.Replacements {
		fn := mainPkg.Func(rep)
		if fn == nil {
			jr.Unsupported = map[string]int{"replacement function not found in harness: " + rep: 1}
			return jr
		}
		w.replacements[impl] = fn
	}
	if name == "" {
		jr.Name = cfg.Entry
	}
	t0 := time.Now()
	w.explore()
	jr.WallS = time.Since(t0).Seconds()
	jr.Stats = w.stats
	jr.SolverS = float64(w.stats.SolverNs) / 1e9
	for _, k := range sortedKeys(w.violations) {
		jr.Violations = append(jr.Violations, w.violations[k])
	}
	jr.Incomplete = w.incompletes
	jr.Unsupported = w.unsupporteds
	jr.Blocked = w.blocked
	jr.Cuts = w.cuts
	jr.Reached = w.reached
	jr.MergeAborts = w.mergeAbortWhy
	jr.Samples = w.samples
	for fn := range w.fnSeen {
		jr.Functions = append(jr.Functions, fn)
	}
	sort.Strings(jr.Functions)
	jr.Exhaustive = len(w.incompletes) == 0 && len(w.unsupporteds) == 0
	return jr
}

func (w *World) findFunc(pkg, name string) *ssa.Function {
	p := w.byPath[pkg]
	if p == nil {
		return nil
	}
	return p.Func(name)
}

func printJob(jr *JobResult) {
	fmt.Fprintf(os.Stderr, "job %s: paths=%d obligations=%d discharged=%d violated=%d undischarged=%d queries=%d solver=%.1fs wall=%.1fs exhaustive=%v\n",
		jr.Name, jr.Stats.Paths, jr.Stats.Obligations, jr.Stats.Discharged, jr.Stats.Violated, jr.Stats.Undischarged, jr.Stats.Queries, jr.SolverS, jr.WallS, jr.Exhaustive)
	for _, v := range jr.Violations {
		fmt.Fprintf(os.Stderr, "  VIOLATION %s in %s [%s] %s x%d  %v\n", v.Kind, v.Fn, v.Site, v.Msg, v.Count, trunc(v.Inputs, 24))
	}
	for k, n := range jr.Incomplete {
		fmt.Fprintf(os.Stderr, "  INCOMPLETE x%d %s\n", n, k)
	}
	for k, n := range jr.Unsupported {
		fmt.Fprintf(os.Stderr, "  UNSUPPORTED x%d %s\n", n, k)
	}
	for k, n := range jr.Blocked {
		fmt.Fprintf(os.Stderr, "  BLOCKED x%d %s\n", n, k)
	}
	for k, n := range jr.Cuts {
		fmt.Fprintf(os.Stderr, "  CUT x%d %s\n", n, k)
	}
	for k, n := range jr.MergeAborts {
		fmt.Fprintf(os.Stderr, "  merge-abort x%d %s\n", n, k)
	}
	for k, ok := range jr.Reached {
		if !ok {
			fmt.Fprintf(os.Stderr, "  UNREACHED tag %s\n", k)
		}
	}
	fmt.Fprintf(os.Stderr, "  path ends: %v\n", jr.Stats.PathsEnded)
}
