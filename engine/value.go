package main

// Run-time values of the symbolic interpreter.
//
//   scalar (bool, ints, floats)  *Term
//   string                       Str   (concrete Go string, or physical byte terms + symbolic length)
//   pointer                      Ptr   (Go pointer to a Value slot, or symbolic element of an array)
//   slice                        Slice (backing *Array, concrete offset/cap, symbolic length)
//   array / struct value         Agg   (slots; copied on load/store)
//   interface                    Iface (dynamic type + value)
//   func                         *Closure
//   map / chan                   *Map / *Chan
//   tuple                        Tuple

import (
	"fmt"
	"go/types"
	"strings"

	"golang.org/x/tools/go/ssa"
)

type Value interface{}

type Str struct {
	c string  // concrete contents when b == nil
	b []*Term // physical bytes (BV8)
	n *Term   // logical length (BV64), n <= len(b)
}

type Array struct {
	elems []Value
	id    int
}

type Slice struct {
	arr *Array // nil for nil slice
	off int
	n   *Term // length, BV64
	cap int
}

type Ptr struct {
	p   *Value // ordinary location
	arr *Array // symbolic element: arr.elems[off+idx], idx in [0,n)
	off int
	idx *Term
	n   int
	obj *Object // identity for zero-sized / opaque objects and for pointer → containing object navigation
}

// Object carries identity information for an allocation (for printing and opaque handles).
type Object struct {
	id   int
	what string
}

type Agg []Value // struct fields or array elements (value semantics)

type Tuple []Value

type Iface struct {
	t types.Type // nil = nil interface
	v Value
}

type Closure struct {
	fn    *ssa.Function
	env   []Value
	intr  string // name of an engine-provided function value (e.g. bound intrinsic)
	bound []Value
}

type mapEntry struct {
	k, v    Value
	deleted bool
}

type Map struct {
	entries []*mapEntry
	index   map[string]int
	live    int
	id      int
	symKeys bool // some entry has a key with symbolic parts: lookups compare entry by entry
	symSeq  int
}

type Chan struct {
	cap    int
	buf    []Value
	closed bool
	id     int
	// unbuffered rendezvous (scheduler mode): a sender offers a value and waits until it is taken
	offered     bool
	offer       Value
	taken       bool
	recvWaiting int
	vcs         []vclock // clocks travelling with buffered messages (race detection)
	offerVC     vclock
	closeVC     vclock
	// goroutines blocked
	recvq []*waiter
	sendq []*waiter
}

type waiter struct {
	g    *Goroutine
	val  Value // value to send
	got  Value // received value
	ok   bool
	done bool
	sel  int // select case index
	selW *selWait
}

type selWait struct {
	fired bool
	index int
	val   Value
	ok    bool
}

// Opaque is a value produced by an uninterpreted stub; it can be copied and compared with itself only.
type Opaque struct {
	id   int
	what string
}

// Poison marks a value that could not be computed during package initialisation.
type Poison struct{ why string }

// ---------------------------------------------------------------------------

func sortOfBasic(b *types.Basic) (Sort, bool) {
	switch b.Kind() {
	case types.Bool, types.UntypedBool:
		return SBool, true
	case types.Int8, types.Uint8:
		return S8, true
	case types.Int16, types.Uint16:
		return S16, true
	case types.Int32, types.Uint32, types.UntypedRune:
		return S32, true
	case types.Int, types.Uint, types.Int64, types.Uint64, types.Uintptr, types.UntypedInt:
		return S64, true
	case types.Float32:
		return SF32, true
	case types.Float64, types.UntypedFloat:
		return SF64, true
	}
	return Sort{}, false
}

func isSigned(t types.Type) bool {
	b, ok := t.Underlying().(*types.Basic)
	if !ok {
		return false
	}
	return b.Info()&types.IsInteger != 0 && b.Info()&types.IsUnsigned == 0
}

func isStringType(t types.Type) bool {
	b, ok := t.Underlying().(*types.Basic)
	return ok && b.Info()&types.IsString != 0
}

func (c *Ctx) zero(t types.Type) Value {
	switch t := t.Underlying().(type) {
	case *types.Basic:
		if t.Kind() == types.String || t.Kind() == types.UntypedString {
			return Str{}
		}
		if t.Kind() == types.UnsafePointer {
			return Ptr{}
		}
		if t.Kind() == types.UntypedNil || t.Kind() == types.Invalid {
			return nil
		}
		if t.Kind() == types.Complex128 || t.Kind() == types.Complex64 {
			return Opaque{what: "complex"}
		}
		s, ok := sortOfBasic(t)
		if !ok {
			panic(unsupported("zero of basic " + t.String()))
		}
		return c.tb.Const(0, s)
	case *types.Pointer:
		return Ptr{}
	case *types.Slice:
		return Slice{n: c.tb.Const(0, S64)}
	case *types.Array:
		n := int(t.Len())
		a := make(Agg, n)
		if n > 0 {
			z := c.zero(t.Elem())
			a[0] = z
			for i := 1; i < n; i++ {
				a[i] = copyVal(z)
			}
		}
		return a
	case *types.Struct:
		a := make(Agg, t.NumFields())
		for i := range a {
			a[i] = c.zero(t.Field(i).Type())
		}
		return a
	case *types.Interface:
		return Iface{}
	case *types.Signature:
		return (*Closure)(nil)
	case *types.Map:
		return (*Map)(nil)
	case *types.Chan:
		return (*Chan)(nil)
	case *types.Tuple:
		tp := make(Tuple, t.Len())
		for i := range tp {
			tp[i] = c.zero(t.At(i).Type())
		}
		return tp
	}
	panic(unsupported("zero of " + t.String()))
}

// copyVal copies aggregate values (value semantics); everything else is immutable or a reference.
func copyVal(v Value) Value {
	switch v := v.(type) {
	case Agg:
		n := make(Agg, len(v))
		for i, e := range v {
			if a, ok := e.(Agg); ok {
				n[i] = copyVal(a)
			} else {
				n[i] = e
			}
		}
		return n
	}
	return v
}

func (s Str) isConc() bool { return s.b == nil }

func (c *Ctx) strLen(s Str) *Term {
	if s.b == nil {
		return c.tb.Const(uint64(len(s.c)), S64)
	}
	return s.n
}

func (c *Ctx) strBytes(s Str) []*Term {
	if s.b != nil {
		return s.b
	}
	out := make([]*Term, len(s.c))
	for i := 0; i < len(s.c); i++ {
		out[i] = c.byteConst(s.c[i])
	}
	return out
}

func (c *Ctx) byteConst(b byte) *Term {
	return c.byteTab[b]
}

// normStr turns a symbolic-representation string whose bytes and length are all constant into a concrete one.
func (c *Ctx) normStr(s Str) Str {
	if s.b == nil {
		return s
	}
	if !s.n.isC {
		return s
	}
	n := int(s.n.cval)
	if n > len(s.b) {
		n = len(s.b)
	}
	var sb strings.Builder
	for i := 0; i < n; i++ {
		if !s.b[i].isC {
			return Str{b: s.b[:n], n: s.n}
		}
		sb.WriteByte(byte(s.b[i].cval))
	}
	return Str{c: sb.String()}
}

func mkStr(s string) Str { return Str{c: s} }

func describe(v Value) string {
	switch v := v.(type) {
	case nil:
		return "nil"
	case *Term:
		return v.String()
	case Str:
		if v.b == nil {
			return fmt.Sprintf("%q", v.c)
		}
		return fmt.Sprintf("str(sym,len=%v,phys=%d)", v.n, len(v.b))
	case Ptr:
		if v.p == nil && v.arr == nil {
			return "nilptr"
		}
		return "ptr"
	case Slice:
		return fmt.Sprintf("slice(len=%v,cap=%d)", v.n, v.cap)
	case Agg:
		var ps []string
		for i, e := range v {
			if i > 6 {
				ps = append(ps, "...")
				break
			}
			ps = append(ps, describe(e))
		}
		return "{" + strings.Join(ps, ",") + "}"
	case Iface:
		if v.t == nil {
			return "nil-iface"
		}
		return "iface(" + v.t.String() + ")"
	case *Closure:
		if v == nil {
			return "nilfunc"
		}
		if v.fn != nil {
			return "func " + v.fn.String()
		}
		return "func " + v.intr
	case *Map:
		if v == nil {
			return "nilmap"
		}
		return fmt.Sprintf("map(%d)", v.live)
	case Tuple:
		var ps []string
		for _, e := range v {
			ps = append(ps, describe(e))
		}
		return "(" + strings.Join(ps, ",") + ")"
	}
	return fmt.Sprintf("%T", v)
}
