package main

// Exploration driver: stateless depth-first search over decision prefixes. Every run
// re-executes the harness entry from the start; decisions already taken are replayed
// from the prefix without solver calls, new symbolic decisions are checked for
// feasibility and the alternatives are queued. The search is exhaustive within the
// configured bounds when the queue drains and no run was cut short.

import (
	"fmt"
	"go/types"
	"os"
	"runtime"
	"runtime/debug"
	"sort"
	"strings"
	"sync"
	"time"

	"golang.org/x/tools/go/ssa"
)

type Config struct {
	Entry            string            `json:"entry"`
	Args             []int64           `json:"args"`
	Replacements     map[string]string `json:"replacements"` // implementation function -> harness function (same package as harness)
	MaxDepth         int               `json:"maxDepth"`
	MaxSteps         int               `json:"maxSteps"`
	MaxPaths         int               `json:"maxPaths"`
	MaxSymAlloc      int               `json:"maxSymAlloc"`
	MaxConcreteAlloc int               `json:"maxConcreteAlloc"`
	MaxSymStore      int               `json:"maxSymStore"`
	MaxFanout        int               `json:"maxFanout"`
	Merge            bool              `json:"merge"`
	NoMerge          []string          `json:"noMerge"`
	ForceMerge       []string          `json:"forceMerge"`
	FloatMode        string            `json:"floatMode"`
	TimeoutMs        int               `json:"solverTimeoutMs"`
	FirstTimeoutMs   int               `json:"firstTimeoutMs"`
	Workers          int               `json:"workers"`
	TimeBudgetS      int               `json:"timeBudgetS"`
	Unwind           int               `json:"unwind"`
	AllocBudget      bool              `json:"allocBudget"`
	Preempt          int               `json:"preemptions"`
	MaxGoroutines    int               `json:"maxGoroutines"`
	Race             bool              `json:"race"`
	Sched            bool              `json:"sched"`
	Env              map[string]string `json:"env"`
}

type Decision struct {
	Taken  bool
	Val    uint64
	Forced bool
	N      int // n-ary pick: number of alternatives (0 for solver-decided)
}

type Input struct {
	Tag string
	T   *Term
}

type Violation struct {
	Kind   string   `json:"kind"`
	Fn     string   `json:"function"`
	Site   string   `json:"site"`
	Msg    string   `json:"message"`
	Inputs []string `json:"inputs"`
	Vector []uint64 `json:"vector"`
	Tags   []string `json:"tags"`
	Count  int      `json:"count"`
	Stack  []string `json:"stack"`
	Path   []string `json:"-"`
}

func (v *Violation) Sig() string { return v.Kind + "|" + v.Fn + "|" + v.Site }

type undoRec struct {
	p          *Value
	old        Value
	m          *Map
	me         *mapEntry
	key        string
	idx        int
	added      bool
	deletedRec bool
	symFlag    bool
}

type World struct {
	prog         *ssa.Program
	pkgs         []*ssa.Package
	mainPkg      *ssa.Package
	cfg          Config
	sizes        types.Sizes
	infoMu       sync.Mutex
	infos        map[*ssa.Function]*fnInfo
	methods      map[methodKey]*ssa.Function
	impls        map[implKey]bool
	replacements map[string]*ssa.Function
	byPath       map[string]*ssa.Package
	repoPrefix   string
	noMerge      map[string]bool
	forceMerge   map[string]bool

	// shared exploration state
	mu            sync.Mutex
	queue         [][]Decision
	active        int
	cond          *sync.Cond
	violations    map[string]*Violation
	incompletes   map[string]int
	unsupporteds  map[string]int
	mergeAbortWhy map[string]int
	blocked       map[string]int
	cuts          map[string]int
	reached       map[string]bool
	stats         Stats
	fnSeen        map[string]bool
	samples       []string
	stop          bool
	deadline      time.Time
}

type Stats struct {
	Paths         int
	PathsEnded    map[string]int
	Obligations   int
	Folded        int
	Discharged    int
	Violated      int
	Undischarged  int
	Queries       int
	SolverNs      int64
	MaxQueryNs    int64
	Decisions     int
	Merged        int
	MergeAborts   int
	Steps         int64
	Terms         int64
	SolverUnknown int
	Fallbacks     int
	SolverErrors  int
}

type Ctx struct {
	w      *World
	tb     TB
	solver *Solver
	id     int

	globals    map[*ssa.Global]*Value
	pkgInit    map[*ssa.Package]int
	constCache map[*ssa.Const]Value
	byteTab    [256]*Term
	sliceData  map[*Value]Slice
	initMode   int
	undo       []undoRec
	nextObj    int

	// per run
	prefix     []Decision
	pos        int
	trace      []Decision
	known      map[*Term]bool
	inputs     []Input
	depth      int
	steps      int
	merging    int
	guard      *Term
	fnSeen     map[*ssa.Function]bool
	pcLen      int
	runNote    []string
	cut        bool
	sched      *Sched
	absSeq     int
	absApps    []absApp
	oblSeen    map[string]bool
	envTab     map[string]Value
	held       map[*Value]int
	onceDone   map[*Value]bool
	wg         map[*Value]int64
	chanUndo   []*Chan
	allocLimit *Term
	cur        *Frame
	obl        [4]int
	clock      int64
}

func (c *Ctx) hasSymbolic(args []Value) bool {
	for _, a := range args {
		if c.symbolicVal(a, 0) {
			return true
		}
	}
	return false
}

func (c *Ctx) symbolicVal(v Value, d int) bool {
	switch v := v.(type) {
	case *Term:
		return !v.isC
	case Str:
		return v.b != nil
	case Agg:
		if d > 2 {
			return false
		}
		for _, e := range v {
			if c.symbolicVal(e, d+1) {
				return true
			}
		}
	case Slice:
		if !v.n.isC {
			return true
		}
		if v.arr != nil && d < 2 {
			n := int(v.n.cval)
			if n > 64 {
				n = 64
			}
			for i := 0; i < n; i++ {
				if c.symbolicVal(v.arr.elems[v.off+i], d+1) {
					return true
				}
			}
		}
	case Tuple:
		for _, e := range v {
			if c.symbolicVal(e, d+1) {
				return true
			}
		}
	}
	return false
}

// ---------------------------------------------------------------------------
// decisions

func (c *Ctx) assertPC(t *Term) {
	if t.IsTrue() {
		return
	}
	c.solver.Assert(t)
	c.pcLen++
	c.learn(t, true)
}

func (c *Ctx) learn(t *Term, v bool) {
	if t.isC {
		return
	}
	if t.op == "not" {
		c.learn(t.args[0], !v)
		return
	}
	c.known[t] = v
	if (t.op == "bvule" || t.op == "bvult") && t.args[1].isC && !t.args[0].isC && v {
		ub := t.args[1].cval
		if t.op == "bvult" && ub > 0 {
			ub--
		}
		if x := t.args[0]; !x.hasUB || ub < x.ub {
			x.hasUB, x.ub = true, ub
		}
	}
	// signed comparisons against a non-negative constant bound the unsigned value when the term is
	// already known to be below 2^63
	if (t.op == "bvsle" || t.op == "bvslt") && !t.args[0].isC && t.args[1].isC && v {
		x, k := t.args[0], t.args[1].cval
		if k < 1<<62 && x.hasUB && x.ub < 1<<63 {
			if t.op == "bvslt" && k > 0 {
				k--
			}
			if k < x.ub {
				x.ub = k
			}
		}
	}
	if (t.op == "bvsle" || t.op == "bvslt") && t.args[0].isC && !t.args[1].isC && !v {
		// not (K < x)  =>  x <= K ;  not (K <= x) => x < K
		x, k := t.args[1], t.args[0].cval
		if k < 1<<62 && x.hasUB && x.ub < 1<<63 {
			if t.op == "bvsle" && k > 0 {
				k--
			}
			if k < x.ub {
				x.ub = k
			}
		}
	}
	if v && t.op == "and" {
		c.learn(t.args[0], true)
		c.learn(t.args[1], true)
	}
	if !v && t.op == "or" {
		c.learn(t.args[0], false)
		c.learn(t.args[1], false)
	}
}

func (c *Ctx) lookupKnown(t *Term) (bool, bool) { return c.lookupKnownD(t, 3) }

func (c *Ctx) lookupKnownD(t *Term, d int) (bool, bool) {
	if t.isC {
		return t.cval == 1, true
	}
	if t.op == "not" {
		v, ok := c.lookupKnownD(t.args[0], d)
		return !v, ok
	}
	v, ok := c.known[t]
	if ok {
		return v, true
	}
	if d == 0 {
		return false, false
	}
	if t.op == "and" {
		a, oka := c.lookupKnownD(t.args[0], d-1)
		b, okb := c.lookupKnownD(t.args[1], d-1)
		if oka && okb {
			return a && b, true
		}
		if (oka && !a) || (okb && !b) {
			return false, true
		}
	}
	if t.op == "or" {
		a, oka := c.lookupKnownD(t.args[0], d-1)
		b, okb := c.lookupKnownD(t.args[1], d-1)
		if oka && okb {
			return a || b, true
		}
		if (oka && a) || (okb && b) {
			return true, true
		}
	}
	return false, false
}

func (c *Ctx) replaying() bool { return c.pos < len(c.prefix) }

func (c *Ctx) checkSat(t *Term) string {
	r, _ := c.solver.Check(t, nil)
	return r
}

// branch decides a symbolic condition. Both feasible outcomes are explored (the second
// one as a queued prefix).
func (c *Ctx) branch(cond *Term, fr *Frame) bool {
	if cond.isC {
		return cond.cval == 1
	}
	if c.merging > 0 {
		panic(mergeAbort{"symbolic branch in non-merged code"})
	}
	if v, ok := c.lookupKnown(cond); ok {
		return v
	}
	if c.initMode > 0 {
		panic(unsupported("symbolic branch during package initialisation"))
	}
	if c.replaying() {
		d := c.prefix[c.pos]
		c.pos++
		c.trace = append(c.trace, d)
		if d.Forced {
			c.learn(cond, d.Taken)
		} else if d.Taken {
			c.assertPC(cond)
		} else {
			c.assertPC(c.tb.Not(cond))
		}
		return d.Taken
	}
	rt := c.checkSat(cond)
	rf := "sat"
	if rt != "unsat" {
		rf = c.checkSat(c.tb.Not(cond))
	}
	// (when the true side is infeasible the false side is taken without a query: the path condition of
	// a followed path is satisfiable, and a violation always needs its own sat answer anyway)
	ft, ff := rt != "unsat", rf != "unsat"
	if rt == "unknown" || rf == "unknown" || rt == "error" || rf == "error" {
		c.incomplete("solver gave no answer on a branch feasibility query (both sides followed)")
	}
	switch {
	case ft && ff:
		alt := append(append([]Decision(nil), c.trace...), Decision{Taken: false})
		c.w.push(alt)
		c.trace = append(c.trace, Decision{Taken: true})
		c.pos++
		c.assertPC(cond)
		return true
	case ft:
		c.trace = append(c.trace, Decision{Taken: true, Forced: true})
		c.pos++
		c.learn(cond, true)
		return true
	case ff:
		c.trace = append(c.trace, Decision{Taken: false, Forced: true})
		c.pos++
		c.learn(cond, false)
		return false
	}
	panic(pathEnd{"infeasible"})
}

// pick makes an n-ary choice all of whose alternatives are followed (scheduling, harness choice).
func (c *Ctx) pick(n int, what string) int {
	if n <= 1 {
		return 0
	}
	if c.merging > 0 {
		panic(mergeAbort{"choice in merged code"})
	}
	if c.replaying() {
		d := c.prefix[c.pos]
		c.pos++
		c.trace = append(c.trace, d)
		return int(d.Val)
	}
	for k := n - 1; k >= 1; k-- {
		alt := append(append([]Decision(nil), c.trace...), Decision{Val: uint64(k), N: n})
		c.w.push(alt)
	}
	c.trace = append(c.trace, Decision{Val: 0, N: n})
	c.pos++
	return 0
}

// concretize case-splits a symbolic term over its feasible values.
func (c *Ctx) concretize(fr *Frame, t *Term, why string) uint64 {
	if t.isC {
		return t.cval
	}
	if c.merging > 0 {
		panic(mergeAbort{"concretisation: " + why})
	}
	if c.initMode > 0 {
		panic(unsupported("symbolic value during package initialisation"))
	}
	for n := 0; ; n++ {
		if n > c.w.cfg.MaxFanout {
			c.incomplete(fmt.Sprintf("case split on %s exceeds fan-out bound %d", why, c.w.cfg.MaxFanout))
			panic(pathEnd{"fanout"})
		}
		if c.replaying() {
			d := c.prefix[c.pos]
			c.pos++
			c.trace = append(c.trace, d)
			eq := c.tb.Eq(t, c.tb.Const(d.Val, t.s))
			if d.Taken {
				if !d.Forced {
					c.assertPC(eq)
				} else {
					c.assertPC(eq) // forced: implied, but asserting keeps later folding simple
				}
				return d.Val
			}
			c.assertPC(c.tb.Not(eq))
			continue
		}
		r, model := c.solver.Check(c.tb.Bool(true), []*Term{t})
		if r != "sat" {
			if r == "unsat" {
				panic(pathEnd{"infeasible"})
			}
			c.incomplete("solver gave no model for a case split on " + why)
			panic(pathEnd{"unknown"})
		}
		v := model[t]
		eq := c.tb.Eq(t, c.tb.Const(v, t.s))
		r2 := c.checkSat(c.tb.Not(eq))
		if r2 == "unsat" {
			c.trace = append(c.trace, Decision{Taken: true, Val: v, Forced: true})
			c.pos++
			c.assertPC(eq)
			return v
		}
		if r2 != "sat" {
			c.incomplete("solver gave no answer while enumerating values of " + why)
		}
		alt := append(append([]Decision(nil), c.trace...), Decision{Taken: false, Val: v})
		c.w.push(alt)
		c.trace = append(c.trace, Decision{Taken: true, Val: v})
		c.pos++
		c.assertPC(eq)
		return v
	}
}

// assume restricts the path; an infeasible assumption ends it.
func (c *Ctx) assume(fr *Frame, cond *Term, why string) {
	if cond.IsTrue() {
		return
	}
	if c.merging > 0 {
		panic(mergeAbort{"assume in merged code"})
	}
	if cond.IsFalse() {
		panic(pathEnd{"assume false: " + why})
	}
	if v, ok := c.lookupKnown(cond); ok {
		if v {
			return
		}
		panic(pathEnd{"assume false: " + why})
	}
	if c.replaying() {
		c.assertPC(cond)
		return
	}
	if r := c.checkSat(cond); r == "unsat" {
		if strings.Contains(why, "engine bound") {
			// every input on this path lies beyond the engine bound: the path is NOT followed
			fn, site := c.site(fr)
			c.w.mu.Lock()
			c.w.cuts[why+" (whole path beyond the bound) @ "+fn+" : "+site]++
			c.w.mu.Unlock()
		}
		panic(pathEnd{"assume infeasible: " + why})
	}
	if strings.Contains(why, "engine bound") {
		// a stated cut: if inputs beyond the bound are feasible here they are NOT followed
		if r := c.checkSat(c.tb.Not(cond)); r != "unsat" {
			fn, site := c.site(fr)
			c.w.mu.Lock()
			c.w.cuts[why+" @ "+fn+" : "+site]++
			c.w.mu.Unlock()
		}
	}
	c.assertPC(cond)
}

// ---------------------------------------------------------------------------
// obligations and violations

func (c *Ctx) site(fr *Frame) (string, string) {
	if fr == nil {
		return "?", "?"
	}
	f := fr
	// attribute to the innermost function of the repository or harness (not std)
	for f != nil && !c.w.isRepoFn(f.fn) && f.caller != nil {
		f = f.caller
	}
	pos := c.w.prog.Fset.Position(f.pos)
	line := sourceLine(pos.Filename, pos.Line)
	return f.fn.String(), line
}

func (w *World) isRepoFn(fn *ssa.Function) bool {
	if fn.Pkg == nil {
		if o := fn.Origin(); o != nil && o.Pkg != nil {
			return strings.HasPrefix(o.Pkg.Pkg.Path(), w.repoPrefix)
		}
		if fn.Parent() != nil {
			return w.isRepoFn(fn.Parent())
		}
		return false
	}
	return strings.HasPrefix(fn.Pkg.Pkg.Path(), w.repoPrefix)
}

var srcCache sync.Map

func sourceLine(file string, line int) string {
	if file == "" {
		return ""
	}
	var lines []string
	if v, ok := srcCache.Load(file); ok {
		lines = v.([]string)
	} else {
		data, err := readSource(file)
		if err != nil {
			return ""
		}
		lines = strings.Split(string(data), "\n")
		srcCache.Store(file, lines)
	}
	if line-1 < len(lines) && line >= 1 {
		return strings.TrimSpace(lines[line-1])
	}
	return ""
}

var overlayFiles = map[string][]byte{}

func readSource(file string) ([]byte, error) {
	if b, ok := overlayFiles[file]; ok {
		return b, nil
	}
	return os.ReadFile(file)
}

func (c *Ctx) stack(fr *Frame) []string {
	var out []string
	for f := fr; f != nil && len(out) < 12; f = f.caller {
		p := c.w.prog.Fset.Position(f.pos)
		out = append(out, fmt.Sprintf("%s (%s:%d)", f.fn.String(), shortFile(p.Filename), p.Line))
	}
	return out
}

func shortFile(f string) string {
	if i := strings.LastIndex(f, "/"); i >= 0 {
		return f[i+1:]
	}
	return f
}

// obligation: "bad" must be unsatisfiable on this path. A model is a counterexample.
// Afterwards the path continues under ¬bad.
func (c *Ctx) obligation(fr *Frame, bad *Term, kind, msg string) {
	if c.guard != nil {
		bad = c.tb.And(c.guard, bad)
	}
	if bad.IsFalse() {
		c.countObl(0)
		return
	}
	if v, ok := c.lookupKnown(bad); ok && !v {
		c.countObl(0)
		return
	}
	if c.initMode > 0 {
		if bad.IsTrue() {
			panic(unsupported("panic during package initialisation: " + msg))
		}
		return
	}
	if c.replaying() {
		// already decided by the run that first executed this prefix
		if bad.IsTrue() {
			panic(pathEnd{"panic (replayed)"})
		}
		c.assertPC(c.tb.Not(bad))
		return
	}
	var wants []*Term
	for _, in := range c.inputs {
		wants = append(wants, in.T)
	}
	r, model := c.solver.Check(bad, wants)
	switch r {
	case "unsat":
		c.countObl(1)
	case "sat":
		if !c.confirmModel(bad, model) {
			c.countObl(3)
			fn, site := c.site(fr)
			c.w.noteUndischarged(kind + " (solver model not confirmed) @ " + fn + " : " + site)
			break
		}
		c.countObl(2)
		c.recordViolation(fr, kind, msg, model)
	default:
		c.countObl(3)
		fn, site := c.site(fr)
		c.w.noteUndischarged(kind + " @ " + fn + " : " + site)
	}
	if bad.IsTrue() {
		panic(pathEnd{"panic"})
	}
	c.assertPC(c.tb.Not(bad))
}

// violation records an unconditional violation on the current (feasible) path.
func (c *Ctx) violation(kind string, fr *Frame, msg string) {
	if c.initMode > 0 {
		panic(unsupported("panic during package initialisation: " + msg))
	}
	if c.merging > 0 {
		panic(mergeAbort{"violation in merged code"})
	}
	if c.replaying() {
		return
	}
	c.countObl(2)
	var wants []*Term
	for _, in := range c.inputs {
		wants = append(wants, in.T)
	}
	r, model := c.solver.Check(c.tb.Bool(true), wants)
	if r != "sat" {
		if r != "unsat" {
			fn, site := c.site(fr)
			c.w.noteUndischarged(kind + " @ " + fn + " : " + site)
		}
		return
	}
	if !c.confirmModel(c.tb.Bool(true), model) {
		fn, site := c.site(fr)
		c.w.noteUndischarged(kind + " (solver model not confirmed) @ " + fn + " : " + site)
		return
	}
	c.recordViolation(fr, kind, msg, model)
}

// confirmModel re-asks the solver whether path condition ∧ bad holds under the input values of a
// reported model. A model that the solver itself refutes (lost context, mis-parsed values) must not
// become a violation.
func (c *Ctx) confirmModel(bad *Term, model map[*Term]uint64) bool {
	q := bad
	for _, in := range c.inputs {
		if in.T.isC {
			continue
		}
		v, ok := model[in.T]
		if !ok {
			continue
		}
		q = c.tb.And(q, c.tb.Eq(in.T, c.tb.Const(v, in.T.s)))
	}
	return c.checkSat(q) != "unsat"
}

func (c *Ctx) recordViolation(fr *Frame, kind, msg string, model map[*Term]uint64) {
	fn, site := c.site(fr)
	v := &Violation{Kind: kind, Fn: fn, Site: site, Msg: msg, Count: 1, Stack: c.stack(fr)}
	for _, in := range c.inputs {
		val := model[in.T]
		v.Vector = append(v.Vector, val)
		v.Tags = append(v.Tags, in.Tag)
		v.Inputs = append(v.Inputs, fmt.Sprintf("%s=%d", in.Tag, val))
	}
	if c.sched != nil {
		v.Path = c.sched.traceStrings()
		v.Stack = append(v.Stack, "schedule: "+strings.Join(v.Path, " "))
	}
	c.w.mu.Lock()
	defer c.w.mu.Unlock()
	if old, ok := c.w.violations[v.Sig()]; ok {
		old.Count++
		if len(v.Vector) < len(old.Vector) { // prefer the shorter witness
			v.Count = old.Count
			c.w.violations[v.Sig()] = v
		}
		return
	}
	c.w.violations[v.Sig()] = v
}

// engineErr carries an internal error of the engine (with its stack) out of a scheduled goroutine.
type engineErr struct {
	r     any
	stack string
}

func (c *Ctx) countObl(k int) {
	c.obl[k]++
}

func (w *World) noteUndischarged(s string) {
	w.mu.Lock()
	w.incompletes["undischarged obligation: "+s]++
	w.mu.Unlock()
}

func (c *Ctx) incomplete(why string) {
	c.cut = true
	c.w.mu.Lock()
	c.w.incompletes[why]++
	c.w.mu.Unlock()
}

func (w *World) push(p []Decision) {
	w.mu.Lock()
	w.queue = append(w.queue, p)
	w.mu.Unlock()
	w.cond.Signal()
}

// ---------------------------------------------------------------------------
// harness vocabulary

func (c *Ctx) verifCall(fr *Frame, fn *ssa.Function, args []Value) (Value, bool) {
	tb := c.tb
	name := fn.Name()
	tagOf := func(i int) string {
		if i < len(args) {
			if s, ok := args[i].(Str); ok && s.b == nil {
				return s.c
			}
		}
		return "?"
	}
	nondet := func(s Sort) Value {
		if c.merging > 0 {
			panic(mergeAbort{"nondet in merged code"})
		}
		tag := tagOf(0)
		t := tb.Sym(fmt.Sprintf("n%d_%s", len(c.inputs), tag), s)
		c.inputs = append(c.inputs, Input{Tag: tag, T: t})
		return t
	}
	switch name {
	case "verifNondetU64", "verifNondetInt64", "verifNondetInt", "verifNondetUint":
		return nondet(S64), true
	case "verifNondetU32", "verifNondetInt32":
		return nondet(S32), true
	case "verifNondetU16", "verifNondetInt16":
		return nondet(S16), true
	case "verifNondetU8", "verifNondetInt8":
		return nondet(S8), true
	case "verifNondetBool":
		return nondet(SBool), true
	case "verifNondetF32":
		return tb.mk("bits2f32", SF32, 0, 0, nondet(S32).(*Term)), true
	case "verifNondetF64":
		return tb.mk("bits2f64", SF64, 0, 0, nondet(S64).(*Term)), true
	case "verifNondetString", "verifNondetBytes":
		tag := tagOf(0)
		maxLen := int(args[1].(*Term).cval)
		n := tb.Sym(fmt.Sprintf("n%d_%s.len", len(c.inputs), tag), S64)
		c.inputs = append(c.inputs, Input{Tag: tag + ".len", T: n})
		bs := make([]*Term, maxLen)
		for i := range bs {
			bs[i] = tb.Sym(fmt.Sprintf("n%d_%s.%d", len(c.inputs), tag, i), S8)
			c.inputs = append(c.inputs, Input{Tag: fmt.Sprintf("%s.%d", tag, i), T: bs[i]})
		}
		c.assume(fr, tb.Bin("bvule", n, tb.Int(int64(maxLen), 64)), "nondet string length bound")
		if name == "verifNondetBytes" {
			arr := &Array{elems: make([]Value, maxLen)}
			for i, b := range bs {
				arr.elems[i] = b
			}
			return Slice{arr: arr, n: n, cap: maxLen}, true
		}
		return Str{b: bs, n: n}, true
	case "verifAssume":
		c.assume(fr, args[0].(*Term), "harness assumption")
		return nil, true
	case "verifAssert":
		tag := tagOf(1)
		c.obligation(fr.callerOr(), tb.Not(args[0].(*Term)), "assert:"+tag, "assertion "+tag+" violated")
		return nil, true
	case "verifReach":
		tag := tagOf(0)
		c.w.mu.Lock()
		done := c.w.reached[tag]
		c.w.mu.Unlock()
		if !done && !c.replaying() {
			if r := c.checkSat(tb.Bool(true)); r == "sat" {
				c.w.mu.Lock()
				c.w.reached[tag] = true
				c.w.mu.Unlock()
			}
		} else if !done {
			// replaying: register lazily, cheap membership only
			c.w.mu.Lock()
			if _, ok := c.w.reached[tag]; !ok {
				c.w.reached[tag] = false
			}
			c.w.mu.Unlock()
		}
		if !done {
			c.w.mu.Lock()
			if _, ok := c.w.reached[tag]; !ok {
				c.w.reached[tag] = false
			}
			c.w.mu.Unlock()
		}
		return nil, true
	case "verifChoice": // value in [0,n), case split so that control flow after it is concrete
		n := args[0].(*Term)
		t := tb.Sym(fmt.Sprintf("n%d_choice", len(c.inputs)), S64)
		c.inputs = append(c.inputs, Input{Tag: "choice", T: t})
		c.assume(fr, tb.Bin("bvult", t, n), "choice range")
		return tb.Const(c.concretize(fr, t, "harness choice"), S64), true
	case "verifConcretize":
		t := args[0].(*Term)
		return tb.Const(c.concretize(fr, t, "harness request"), t.s), true
	case "verifIsSymbolic":
		return tb.Bool(true), true
	case "verifNote":
		if c.sched != nil {
			c.sched.note("g%d:%s", c.sched.cur.id, tagOf(0))
		}
		return nil, true
	case "verifQuiesce":
		if c.sched != nil {
			c.sched.quiesce(fr)
		}
		return nil, true
	case "verifYield":
		if c.sched != nil {
			c.sched.yield(fr, "yield")
		}
		return nil, true
	case "verifHoldTimers":
		// while held, armed timers do not fire (no time passes); released timers fire as before
		if c.sched != nil {
			b := args[0].(*Term)
			c.sched.holdTimers = b.isC && b.cval == 1
		}
		return nil, true
	case "verifAllocBudget":
		c.allocLimit = args[0].(*Term)
		return nil, true
	case "verifFillBytes":
		tag := tagOf(0)
		p := args[1].(Slice)
		n := args[2].(*Term)
		mx := int(args[3].(*Term).cval)
		for i := 0; i < mx && i < p.cap; i++ {
			t := tb.Sym(fmt.Sprintf("n%d_%s", len(c.inputs), tag), S8)
			c.inputs = append(c.inputs, Input{Tag: tag, T: t})
			slot := &p.arr.elems[p.off+i]
			old, _ := (*slot).(*Term)
			if old == nil {
				old = tb.Const(0, S8)
			}
			c.assign(slot, tb.Ite(tb.Bin("bvslt", tb.Int(int64(i), 64), n), t, old))
		}
		return nil, true
	case "verifIteString":
		return c.iteVal(args[0].(*Term), args[1], args[2]), true
	case "verifIte64":
		return tb.Ite(args[0].(*Term), args[1].(*Term), args[2].(*Term)), true
	}
	return nil, false
}

func (fr *Frame) callerOr() *Frame { return fr }

// ---------------------------------------------------------------------------
// globals and package initialisation

func (c *Ctx) global(g *ssa.Global) *Value {
	if cell, ok := c.globals[g]; ok {
		return cell
	}
	cell := new(Value)
	*cell = c.zero(g.Type().Underlying().(*types.Pointer).Elem())
	c.globals[g] = cell
	if g.Pkg != nil {
		c.initPackage(g.Pkg)
	}
	return c.globals[g]
}

// initPackage runs the package initialiser concretely, best effort: an instruction that
// cannot be executed leaves a Poison value behind instead of a silent default.
func (c *Ctx) initPackage(p *ssa.Package) {
	if c.pkgInit[p] != 0 {
		return
	}
	c.pkgInit[p] = 1
	init := p.Func("init")
	if init == nil || init.Blocks == nil {
		c.pkgInit[p] = 2
		return
	}
	if skipInitPkgs[p.Pkg.Path()] {
		c.pkgInit[p] = 2
		return
	}
	saveMerging, saveGuard, saveDepth := c.merging, c.guard, c.depth
	c.merging, c.guard, c.depth = 0, nil, 0
	c.initMode++
	func() {
		defer func() {
			if r := recover(); r != nil {
				switch r.(type) {
				case unsupportedErr, pathEnd, mergeAbort:
					// initialisation stopped early; remaining globals keep their zero value → poison them
					c.poisonUninit(p, fmt.Sprint(r))
				default:
					c.poisonUninit(p, fmt.Sprint(r))
				}
			}
		}()
		c.runInit(init)
	}()
	c.initMode--
	c.merging, c.guard, c.depth = saveMerging, saveGuard, saveDepth
	c.pkgInit[p] = 2
}

var skipInitPkgs = map[string]bool{
	"runtime": true, "os": false, "syscall": true, "internal/poll": true, "net": true, "net/http": true,
	"crypto/tls": true, "internal/cpu": true, "internal/godebug": true,
}

func (c *Ctx) poisonUninit(p *ssa.Package, why string) {
	if os.Getenv("GOSYM_DEBUG_INIT") != "" {
		fmt.Fprintf(os.Stderr, "init of %s stopped: %s\n", p.Pkg.Path(), why)
	}
}

// runInit interprets an init function; failing instructions produce Poison.
func (c *Ctx) runInit(fn *ssa.Function) {
	fr := c.newFrame(nil, fn, nil, nil)
	var prev *ssa.BasicBlock
	b := fn.Blocks[0]
	for steps := 0; steps < 200000; steps++ {
		nphi := 0
		if prev != nil {
			pi := 0
			for i, p := range b.Preds {
				if p == prev {
					pi = i
				}
			}
			for _, in := range b.Instrs {
				phi, ok := in.(*ssa.Phi)
				if !ok {
					break
				}
				c.set(fr, phi, c.get(fr, phi.Edges[pi]))
				nphi++
			}
		}
		var next *ssa.BasicBlock
		for _, in := range b.Instrs[nphi:] {
			switch in := in.(type) {
			case *ssa.If:
				cond, ok := c.get(fr, in.Cond).(*Term)
				if !ok || !cond.isC {
					// init$guard and similar: treat unknown as "not yet initialised"
					next = b.Succs[1]
				} else if cond.cval == 1 {
					next = b.Succs[0]
				} else {
					next = b.Succs[1]
				}
			case *ssa.Jump:
				next = b.Succs[0]
			case *ssa.Return:
				return
			case *ssa.Call:
				// skip initialisers of imported packages: they run lazily
				if callee, ok := in.Call.Value.(*ssa.Function); ok && callee.Name() == "init" && callee.Pkg != nil && callee.Synthetic != "" && callee.Pkg != fn.Pkg {
					continue
				}
				c.initInstr(fr, in)
			default:
				c.initInstr(fr, in)
			}
		}
		if next == nil {
			return
		}
		prev, b = b, next
	}
}

func (c *Ctx) initInstr(fr *Frame, in ssa.Instruction) {
	defer func() {
		if r := recover(); r != nil {
			switch r.(type) {
			case unsupportedErr, pathEnd, mergeAbort:
			default:
				if os.Getenv("GOSYM_DEBUG_INIT") != "" {
					fmt.Fprintf(os.Stderr, "init instr %s in %s: %v\n", in, fr.fn, r)
				}
			}
			if v, ok := in.(ssa.Value); ok {
				c.set(fr, v, Poison{why: fmt.Sprint(r)})
			}
			if st, ok := in.(*ssa.Store); ok {
				if p, ok := fr.regs[fr.info.idx[st.Addr]].(Ptr); ok && p.p != nil {
					*p.p = Poison{why: fmt.Sprint(r)}
				} else if g, ok := st.Addr.(*ssa.Global); ok {
					*c.global(g) = Poison{why: fmt.Sprint(r)}
				}
			}
		}
	}()
	c.exec(fr, in)
}

// ---------------------------------------------------------------------------
// workers

func (w *World) newCtx(id int) *Ctx {
	c := &Ctx{w: w, id: id}
	c.globals = map[*ssa.Global]*Value{}
	c.pkgInit = map[*ssa.Package]int{}
	c.constCache = map[*ssa.Const]Value{}
	c.sliceData = map[*Value]Slice{}
	c.fnSeen = map[*ssa.Function]bool{}
	c.solver = NewSolver(w.cfg.TimeoutMs)
	c.solver.firstTimeout = w.cfg.FirstTimeoutMs
	c.tb = TB{NewTermTable()}
	for i := range c.byteTab {
		c.byteTab[i] = &Term{isC: true, cval: uint64(i), s: S8}
	}
	return c
}

func (c *Ctx) resetRun(prefix []Decision) {
	c.tb = TB{NewTermTable()}
	c.solver.Reset()
	c.prefix, c.pos, c.trace = prefix, 0, c.trace[:0]
	c.known = map[*Term]bool{}
	c.inputs = c.inputs[:0]
	c.depth, c.steps, c.merging, c.guard = 0, 0, 0, nil
	c.pcLen = 0
	c.cut = false
	c.absSeq = 0
	c.absApps = nil
	c.sched = nil
	c.envTab, c.held, c.onceDone, c.wg, c.chanUndo = nil, nil, nil, nil, nil
	c.allocLimit = nil
	c.clock = 0
}

func (c *Ctx) rollback() { c.rollbackTo(0) }

func (c *Ctx) rollbackTo(mark int) {
	for i := len(c.undo) - 1; i >= mark; i-- {
		u := c.undo[i]
		switch {
		case u.symFlag:
			u.m.symKeys = false
		case u.p != nil:
			*u.p = u.old
		case u.added:
			m := u.m
			i := m.index[u.key]
			delete(m.index, u.key)
			if i == len(m.entries)-1 {
				m.entries = m.entries[:i]
			} else {
				m.entries[i].deleted = true
			}
			m.live--
		case u.deletedRec:
			u.me.deleted = false
			u.m.index[u.key] = u.idx
			u.m.live++
		case u.me != nil:
			u.me.v = u.old
		}
	}
	c.undo = c.undo[:mark]
}

// runOne executes the entry once under the given prefix.
func (c *Ctx) runOne(prefix []Decision) (reason string) {
	c.resetRun(prefix)
	defer c.rollback()
	defer func() {
		if r := recover(); r != nil {
			switch e := r.(type) {
			case pathEnd:
				reason = e.reason
			case unsupportedErr:
				reason = "unsupported"
				c.w.mu.Lock()
				c.w.unsupporteds[e.msg+" @ "+strings.Join(c.stack(c.cur), " < ")]++
				c.w.mu.Unlock()
			case mergeAbort:
				reason = "unsupported"
				c.w.mu.Lock()
				c.w.unsupporteds["merge abort escaped: "+e.why]++
				c.w.mu.Unlock()
			case schedAbort:
				reason = "sched-abort"
			case engineErr:
				reason = "engine-error"
				c.w.mu.Lock()
				c.w.unsupporteds[fmt.Sprintf("engine error: %v\n%s", e.r, e.stack)]++
				c.w.mu.Unlock()
			default:
				reason = "engine-error"
				c.w.mu.Lock()
				c.w.unsupporteds[fmt.Sprintf("engine error: %v\n%s", r, trimStack(debug.Stack()))]++
				c.w.mu.Unlock()
			}
		}
	}()
	entry := c.w.mainPkg.Func(c.w.cfg.Entry)
	if entry == nil {
		panic(unsupported("entry function not found: " + c.w.cfg.Entry))
	}
	var args []Value
	for i, a := range c.w.cfg.Args {
		if i < len(entry.Params) {
			s, _ := sortOfBasic(entry.Params[i].Type().Underlying().(*types.Basic))
			args = append(args, c.tb.Const(uint64(a), s))
		}
	}
	if c.w.cfg.Sched {
		c.runScheduled(entry, args)
	} else {
		c.call(nil, entry, args, nil)
	}
	return "end"
}

func trimStack(b []byte) string {
	lines := strings.Split(string(b), "\n")
	var keep []string
	for _, l := range lines {
		if strings.Contains(l, "/verif/engine/") {
			keep = append(keep, strings.TrimSpace(l))
		}
		if len(keep) > 14 {
			break
		}
	}
	return strings.Join(keep, " < ")
}

var runSem = make(chan struct{}, runtime.NumCPU())

func (w *World) worker(id int, wg *sync.WaitGroup) {
	defer wg.Done()
	var c *Ctx
	defer func() {
		if c != nil {
			c.solver.Close()
		}
	}()
	for {
		w.mu.Lock()
		for len(w.queue) == 0 && w.active > 0 && !w.stop {
			w.cond.Wait()
		}
		if w.stop || (len(w.queue) == 0 && w.active == 0) {
			w.mu.Unlock()
			w.cond.Broadcast()
			break
		}
		p := w.queue[len(w.queue)-1]
		w.queue = w.queue[:len(w.queue)-1]
		w.active++
		w.mu.Unlock()

		runSem <- struct{}{}
		if c == nil {
			c = w.newCtx(id)
		}
		reason := c.runOne(p)
		<-runSem

		w.mu.Lock()
		w.active--
		w.stats.Paths++
		w.stats.PathsEnded[reason]++
		w.stats.Steps += int64(c.steps)
		w.stats.Terms += int64(c.tb.t.nTerms)
		w.stats.Decisions += len(c.trace)
		if len(w.samples) < 6 && reason == "end" {
			w.samples = append(w.samples, c.describeRun())
		}
		if w.cfg.MaxPaths > 0 && w.stats.Paths >= w.cfg.MaxPaths && !w.stop {
			w.stop = true
			w.incompletes[fmt.Sprintf("path bound %d reached with %d prefixes pending", w.cfg.MaxPaths, len(w.queue))]++
		}
		if !w.deadline.IsZero() && time.Now().After(w.deadline) && !w.stop {
			w.stop = true
			w.incompletes[fmt.Sprintf("time budget reached with %d prefixes pending", len(w.queue))]++
		}
		w.mu.Unlock()
		w.cond.Broadcast()
	}
	if c == nil {
		return
	}
	w.mu.Lock()
	w.stats.Obligations += c.obl[0] + c.obl[1] + c.obl[2] + c.obl[3]
	w.stats.Folded += c.obl[0]
	w.stats.Discharged += c.obl[0] + c.obl[1]
	w.stats.Violated += c.obl[2]
	w.stats.Undischarged += c.obl[3]
	w.stats.Queries += c.solver.Queries
	w.stats.SolverNs += int64(c.solver.Time)
	w.stats.SolverUnknown += c.solver.Unknown
	w.stats.Fallbacks += c.solver.Fallbacks
	w.stats.SolverErrors += c.solver.Errors
	if int64(c.solver.MaxQuery) > w.stats.MaxQueryNs {
		w.stats.MaxQueryNs = int64(c.solver.MaxQuery)
	}
	for fn := range c.fnSeen {
		w.fnSeen[fn.String()] = true
	}
	w.mu.Unlock()
}

func (c *Ctx) describeRun() string {
	var sb strings.Builder
	fmt.Fprintf(&sb, "path with %d decisions, %d inputs:", len(c.trace), len(c.inputs))
	for i, in := range c.inputs {
		if i >= 12 {
			sb.WriteString(" …")
			break
		}
		sb.WriteString(" " + in.Tag)
	}
	return sb.String()
}

func (w *World) explore() {
	w.violations = map[string]*Violation{}
	w.incompletes = map[string]int{}
	w.unsupporteds = map[string]int{}
	w.mergeAbortWhy = map[string]int{}
	w.blocked = map[string]int{}
	w.cuts = map[string]int{}
	w.reached = map[string]bool{}
	w.fnSeen = map[string]bool{}
	w.stats = Stats{PathsEnded: map[string]int{}}
	w.queue = [][]Decision{nil}
	w.cond = sync.NewCond(&w.mu)
	if w.cfg.TimeBudgetS > 0 {
		w.deadline = time.Now().Add(time.Duration(w.cfg.TimeBudgetS) * time.Second)
	}
	var wg sync.WaitGroup
	n := w.cfg.Workers
	for i := 0; i < n; i++ {
		wg.Add(1)
		go w.worker(i, &wg)
	}
	wg.Wait()
}

func sortedKeys[V any](m map[string]V) []string {
	var ks []string
	for k := range m {
		ks = append(ks, k)
	}
	sort.Strings(ks)
	return ks
}

// allocHook: allocation accounting. When the harness has stated a budget (verifAllocBudget),
// every make() of n elements must satisfy n*elemsize <= budget.
func (c *Ctx) allocHook(fr *Frame, n *Term, esz int64) {
	if c.allocLimit == nil || c.initMode > 0 {
		return
	}
	tb := c.tb
	bytes := tb.Bin("bvmul", n, tb.Int(esz, 64))
	c.obligation(fr, tb.Bin("bvult", c.allocLimit, bytes), "alloc:budget", "allocation out of proportion to the input")
}
