package main

// regexp.MustCompile / Compile / (*Regexp).MatchString for patterns compiled from concrete
// strings: the regexp/syntax program is compiled natively and simulated as an NFA over the
// bounded symbolic string (guard per program counter per position). Byte-level simulation
// agrees with Go's rune-level matching when every rune class of the pattern is ASCII-only
// (a non-ASCII rune can then never match, and ASCII bytes are always rune boundaries); for
// other patterns the input is required to be ASCII (reported cut).

import (
	"fmt"
	"regexp"
	"regexp/syntax"

	"golang.org/x/tools/go/ssa"
)

type reHandle struct {
	pattern string
	re      *regexp.Regexp
	prog    *syntax.Prog
	ascii   bool // every rune instruction matches ASCII runes only
}

func init() {
	intrinsics["regexp.MustCompile"] = inRegexpCompile
	intrinsics["regexp.Compile"] = inRegexpCompile
	intrinsics["(*regexp.Regexp).MatchString"] = inRegexpMatchString
	intrinsics["regexp.MatchString"] = func(c *Ctx, fr *Frame, fn *ssa.Function, a []Value) Value {
		h := c.compileRe(a[0].(Str))
		return Tuple{c.reMatch(fr, h, a[1].(Str)), Iface{}}
	}
}

func (c *Ctx) compileRe(p Str) *reHandle {
	p = c.normStr(p)
	if p.b != nil {
		panic(unsupported("regexp compiled from a symbolic pattern"))
	}
	re, err := regexp.Compile(p.c)
	if err != nil {
		return nil
	}
	rx, _ := syntax.Parse(p.c, syntax.Perl)
	prog, err := syntax.Compile(rx.Simplify())
	if err != nil {
		return nil
	}
	h := &reHandle{pattern: p.c, re: re, prog: prog, ascii: true}
	for i := range prog.Inst {
		in := &prog.Inst[i]
		switch in.Op {
		case syntax.InstRune, syntax.InstRune1:
			for _, r := range []rune{0x80, 0xFF, 0x100, 0x212A, 0x17F, 0xFFFD, 0x10FFFF} {
				if in.MatchRune(r) {
					h.ascii = false
				}
			}
			for k := 0; k+1 < len(in.Rune); k += 2 {
				if in.Rune[k+1] >= 0x80 {
					h.ascii = false
				}
			}
		case syntax.InstRuneAny, syntax.InstRuneAnyNotNL:
			h.ascii = false
		}
	}
	return h
}

func inRegexpCompile(c *Ctx, fr *Frame, fn *ssa.Function, a []Value) Value {
	h := c.compileRe(a[0].(Str))
	must := fn.Name() == "MustCompile"
	if h == nil {
		if must {
			c.violation("panic:explicit", fr, "regexp: Compile failed")
			panic(pathEnd{"panic"})
		}
		return Tuple{Ptr{}, c.newError(mkStr("regexp: bad pattern"))}
	}
	cell := new(Value)
	*cell = h
	if must {
		return Ptr{p: cell}
	}
	return Tuple{Ptr{p: cell}, Iface{}}
}

func inRegexpMatchString(c *Ctx, fr *Frame, fn *ssa.Function, a []Value) Value {
	p := a[0].(Ptr)
	if p.p == nil {
		c.violation("panic:nil-deref", fr, "MatchString on nil *Regexp")
		panic(pathEnd{"panic"})
	}
	h, ok := (*p.p).(*reHandle)
	if !ok {
		panic(unsupported("MatchString on a Regexp not created by the engine"))
	}
	return c.reMatch(fr, h, a[1].(Str))
}

func (c *Ctx) reMatch(fr *Frame, h *reHandle, s Str) *Term {
	tb := c.tb
	s = c.normStr(s)
	if s.b == nil {
		return tb.Bool(h.re.MatchString(s.c))
	}
	bs, n := s.b, s.n
	L := len(bs)
	if !h.ascii {
		ascii := tb.Bool(true)
		for k, b := range bs {
			ascii = tb.And(ascii, tb.Implies(tb.Bin("bvult", tb.Int(int64(k), 64), n), tb.Bin("bvult", b, tb.Const(0x80, S8))))
		}
		c.noMerge("regexp with non-ASCII classes on symbolic input")
		c.assume(fr, ascii, "regexp input is ASCII for a pattern with non-ASCII classes (engine bound)")
	}
	prog := h.prog
	np := len(prog.Inst)
	// byte condition per rune instruction, as ranges over 0..127 (or 0..255 for "any")
	byteCond := func(in *syntax.Inst, b *Term) *Term {
		switch in.Op {
		case syntax.InstRuneAny:
			return tb.Bool(true)
		case syntax.InstRuneAnyNotNL:
			return tb.Not(tb.Eq(b, tb.Const('\n', S8)))
		}
		cond := tb.Bool(false)
		lo := -1
		for ch := 0; ch <= 128; ch++ {
			m := ch < 128 && in.MatchRune(rune(ch))
			if m && lo < 0 {
				lo = ch
			}
			if !m && lo >= 0 {
				hi := ch - 1
				if lo == hi {
					cond = tb.Or(cond, tb.Eq(b, tb.Const(uint64(lo), S8)))
				} else {
					cond = tb.Or(cond, tb.And(tb.Bin("bvule", tb.Const(uint64(lo), S8), b), tb.Bin("bvule", b, tb.Const(uint64(hi), S8))))
				}
				lo = -1
			}
		}
		return cond
	}
	matched := tb.Bool(false)
	cur := make([]*Term, np)  // guards of threads standing at a rune instruction at this position
	next := make([]*Term, np) // guards arriving at pcs for the next position (before closure)
	for i := range next {
		next[i] = tb.Bool(false)
	}
	for pos := 0; pos <= L; pos++ {
		posT := tb.Int(int64(pos), 64)
		inText := tb.Bin("bvule", posT, n) // position exists
		for i := range cur {
			cur[i] = tb.Bool(false)
		}
		// sources: threads arriving from the previous byte, plus a fresh thread (unanchored search)
		type src struct {
			pc int
			g  *Term
		}
		var sources []src
		for pc, g := range next {
			if !g.IsFalse() {
				sources = append(sources, src{pc, g})
			}
		}
		sources = append(sources, src{prog.Start, inText})
		for _, so := range sources {
			visited := make([]bool, np)
			var walk func(pc int, g *Term)
			walk = func(pc int, g *Term) {
				if g.IsFalse() || visited[pc] {
					return
				}
				visited[pc] = true
				in := &prog.Inst[pc]
				switch in.Op {
				case syntax.InstFail:
				case syntax.InstAlt, syntax.InstAltMatch:
					walk(int(in.Out), g)
					walk(int(in.Arg), g)
				case syntax.InstNop, syntax.InstCapture:
					walk(int(in.Out), g)
				case syntax.InstEmptyWidth:
					op := syntax.EmptyOp(in.Arg)
					cond := tb.Bool(true)
					if op&(syntax.EmptyBeginText|syntax.EmptyBeginLine) != 0 {
						if op&syntax.EmptyBeginLine != 0 && op&syntax.EmptyBeginText == 0 {
							panic(unsupported("regexp multi-line anchors"))
						}
						cond = tb.And(cond, tb.Bool(pos == 0))
					}
					if op&(syntax.EmptyEndText|syntax.EmptyEndLine) != 0 {
						if op&syntax.EmptyEndLine != 0 && op&syntax.EmptyEndText == 0 {
							panic(unsupported("regexp multi-line anchors"))
						}
						cond = tb.And(cond, tb.Eq(posT, n))
					}
					if op&(syntax.EmptyWordBoundary|syntax.EmptyNoWordBoundary) != 0 {
						panic(unsupported("regexp word boundaries"))
					}
					walk(int(in.Out), tb.And(g, cond))
				case syntax.InstMatch:
					matched = tb.Or(matched, g)
				default: // rune instructions
					cur[pc] = tb.Or(cur[pc], g)
				}
			}
			walk(so.pc, so.g)
		}
		for i := range next {
			next[i] = tb.Bool(false)
		}
		if pos == L {
			break
		}
		have := tb.Bin("bvult", posT, n)
		for pc, g := range cur {
			if g.IsFalse() {
				continue
			}
			in := &prog.Inst[pc]
			step := tb.And(tb.And(g, have), byteCond(in, bs[pos]))
			next[int(in.Out)] = tb.Or(next[int(in.Out)], step)
		}
	}
	return matched
}

var _ = fmt.Sprint
