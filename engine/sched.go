package main

// Goroutine scheduler for concurrent code ("sched" mode).
//
// Every interpreted goroutine runs on a real Go goroutine, but only the one holding the
// baton executes. Context switches happen at visible operations (channel operations, lock
// acquisition, go, timer firing, sleep/yield): when the running goroutine blocks or ends, the
// next one is a free choice of the exploration; when it could continue, switching away costs
// one pre-emption and is allowed only within the pre-emption bound. All choices go through
// Ctx.pick, so the stateless depth-first search of explore.go enumerates the schedules while
// the solver decides data-dependent branches and obligations along each of them.

import (
	"runtime/debug"
	"fmt"
	"go/types"
	"strings"

	"golang.org/x/tools/go/ssa"
)

const (
	gRunnable = iota
	gBlocked
	gDone
)

type Goroutine struct {
	id      int
	name    string
	wake    chan struct{}
	state   int
	cond    func() bool
	what    string // what it is blocked on (for reports)
	onMutex *Value
	depth   int
	cur     *Frame
	timer   *Timer // pseudo-goroutine: an armed timer
	blockFr *Frame // frame of the operation it is blocked in (for reports)
	vc      vclock
}

type Timer struct {
	vc    vclock
	id    int
	armed bool
	fn    Value
	cell  *Value // identity of the *time.Timer object
}

type mutexState struct {
	vc      vclock
	held    bool
	readers int
	owner   *Goroutine
}

type schedAbort struct{}

type Sched struct {
	c        *Ctx
	gs       []*Goroutine
	cur      *Goroutine
	timers   []*Timer
	holdTimers bool // verifHoldTimers(true): no timer fires
	byCell   map[*Value]*Timer
	preempts int
	trace    []string
	kill     chan struct{}
	done     chan struct{}
	abort    any
	mutexes  map[*Value]*mutexState
	wgWait   map[*Value]bool
	main     *Goroutine
	ended    bool
	steps    int
	race     *raceState
	wgVC     map[*Value]*vclock
}

func (s *Sched) traceStrings() []string { return s.trace }

func (s *Sched) note(format string, a ...any) {
	if len(s.trace) < 400 {
		s.trace = append(s.trace, fmt.Sprintf(format, a...))
	}
}

// ---------------------------------------------------------------------------

func (c *Ctx) runScheduled(entry *ssa.Function, args []Value) {
	s := &Sched{c: c, kill: make(chan struct{}), done: make(chan struct{}), mutexes: map[*Value]*mutexState{}, byCell: map[*Value]*Timer{}, wgWait: map[*Value]bool{}}
	c.sched = s
	g := s.newG("main")
	s.main = g
	s.cur = g
	go s.body(g, func() { c.call(nil, entry, args, nil) })
	g.wake <- struct{}{}
	<-s.done
	close(s.kill)
	if s.abort != nil {
		panic(s.abort)
	}
}

func (s *Sched) newG(name string) *Goroutine {
	if len(s.gs) >= s.c.w.cfg.MaxGoroutines {
		s.c.w.mu.Lock()
		s.c.w.cuts[fmt.Sprintf("more than %d goroutines in one run (unfair re-queue loops are not followed further)", s.c.w.cfg.MaxGoroutines)]++
		s.c.w.mu.Unlock()
		panic(pathEnd{"goroutine bound"})
	}
	g := &Goroutine{id: len(s.gs), name: name, wake: make(chan struct{}, 1)}
	s.gs = append(s.gs, g)
	return g
}

// body runs one interpreted goroutine on a real goroutine.
func (s *Sched) body(g *Goroutine, f func()) {
	select {
	case <-g.wake:
	case <-s.kill:
		return
	}
	defer func() {
		if r := recover(); r != nil {
			if _, ok := r.(schedAbort); ok {
				return
			}
			// any path-ending condition ends the whole run
			switch r.(type) {
			case pathEnd, unsupportedErr, mergeAbort, engineErr:
			default:
				r = engineErr{r: r, stack: trimStack(debug.Stack()) + "\n  interpreting: " + strings.Join(s.c.stack(s.c.cur), " < ")}
			}
			s.endRun(r)
			return
		}
	}()
	s.c.depth = 0
	f()
	g.state = gDone
	s.note("g%d:end", g.id)
	if g == s.main {
		s.endRun(nil)
		return
	}
	s.leave(g)
}

func (s *Sched) endRun(reason any) {
	if s.ended {
		return
	}
	s.ended = true
	s.abort = reason
	close(s.done)
}

// park makes g wait for the baton (or die with the run).
func (s *Sched) park(g *Goroutine) {
	g.depth, g.cur = s.c.depth, s.c.cur
	select {
	case <-g.wake:
		s.c.depth, s.c.cur = g.depth, g.cur
	case <-s.kill:
		panic(schedAbort{})
	}
}

func (s *Sched) enabled(g *Goroutine) bool {
	switch g.state {
	case gRunnable:
		return true
	case gBlocked:
		return g.cond != nil && g.cond()
	}
	return false
}

// others returns the goroutines (and armed timers, as pseudo-goroutines) other than g that can run now.
func (s *Sched) others(g *Goroutine) []*Goroutine {
	var out []*Goroutine
	start := 0
	if g != nil {
		start = g.id + 1
	}
	n := len(s.gs)
	for k := 0; k < n; k++ {
		o := s.gs[(start+k)%n]
		if o != g && s.enabled(o) {
			out = append(out, o)
		}
	}
	for _, t := range s.timers {
		if t.armed && !s.holdTimers {
			out = append(out, &Goroutine{id: -1 - t.id, timer: t})
		}
	}
	return out
}

// transfer hands the baton from g to next; g waits until it is chosen again.
func (s *Sched) transfer(g *Goroutine, next *Goroutine) {
	s.steps++
	if s.steps > 20000 {
		s.c.incomplete("schedule step bound reached")
		panic(pathEnd{"sched-steps"})
	}
	if next.timer != nil {
		t := next.timer
		t.armed = false
		ng := s.newG(fmt.Sprintf("timer%d", t.id))
		ng.vc = vcCopy(t.vc)
		fn := t.fn
		go s.body(ng, func() { s.c.callValue(nil, fn, nil, nil) })
		s.note("fire:t%d->g%d", t.id, ng.id)
		next = ng
	}
	s.cur = next
	s.note("->g%d", next.id)
	next.wake <- struct{}{}
	if g != nil {
		s.park(g)
		s.cur = g
	}
}

// leave: g has finished; pick someone else to run (free choice) or notice quiescence.
func (s *Sched) leave(g *Goroutine) {
	next := s.chooseNext(g)
	if next == nil {
		s.stuck()
		return
	}
	s.transfer(nil, next)
}

func (s *Sched) chooseNext(g *Goroutine) *Goroutine {
	// a goroutine waiting for quiescence runs only when nothing else can
	var normal, quiesce []*Goroutine
	for _, o := range s.others(g) {
		if o.what == "quiesce" && o.state == gBlocked {
			quiesce = append(quiesce, o)
		} else {
			normal = append(normal, o)
		}
	}
	if len(normal) > 0 {
		// delay bounding: the default is the next goroutine in round-robin order; choosing the
		// k-th one instead costs k delays
		return normal[s.delayPick(len(normal), 0, "next goroutine")]
	}
	if len(quiesce) > 0 {
		return quiesce[0]
	}
	return nil
}

// stuck: nothing can run and the main goroutine has not finished.
func (s *Sched) stuck() {
	var ws []string
	for _, o := range s.gs {
		if o.state == gBlocked {
			ws = append(ws, fmt.Sprintf("g%d(%s) waits for %s", o.id, o.name, o.what))
		}
	}
	s.c.violation("deadlock:global", s.main.cur, "no goroutine can run: "+strings.Join(ws, "; "))
	s.endRun(pathEnd{"deadlock"})
	panic(schedAbort{})
}

// delayPick chooses one of n ordered alternatives; alternative k costs k delays of the budget.
func (s *Sched) delayPick(n int, base int, what string) int {
	left := s.c.w.cfg.Preempt - s.preempts
	if left < 0 {
		left = 0
	}
	if n > left+1 {
		n = left + 1
	}
	k := s.c.pick(n, what)
	s.preempts += k
	return k
}

// point: the running goroutine is about to perform a visible operation and could continue.
func (s *Sched) point(fr *Frame, what string) {
	g := s.cur
	if s.preempts >= s.c.w.cfg.Preempt {
		return
	}
	var os []*Goroutine
	for _, o := range s.others(g) {
		if !(o.what == "quiesce" && o.state == gBlocked) {
			os = append(os, o)
		}
	}
	if len(os) == 0 {
		return
	}
	k := s.delayPick(1+len(os), 0, "preempt at "+what)
	if k == 0 {
		return
	}
	s.note("preempt:g%d@%s", g.id, what)
	s.transfer(g, os[k-1])
}

// block: g cannot proceed until cond holds.
func (s *Sched) block(fr *Frame, cond func() bool, what string) {
	g := s.cur
	for !cond() {
		g.state, g.cond, g.what = gBlocked, cond, what
		if fr != nil {
			g.cur = fr
			g.blockFr = fr
		}
		next := s.chooseNext(g)
		if next == nil {
			// nobody else can run: this goroutine will never wake up
			s.stuck()
		}
		s.transfer(g, next)
	}
	g.state, g.cond, g.what, g.onMutex = gRunnable, nil, "", nil
}

func (s *Sched) yield(fr *Frame, what string) {
	s.point(fr, what)
}

// quiesce blocks the caller until no other goroutine can run and no timer is armed.
// A goroutine still waiting for a mutex at that moment can never get it: deadlock.
func (s *Sched) quiesce(fr *Frame) {
	g := s.cur
	for {
		if len(s.others(g)) == 0 {
			break
		}
		g.state, g.cond, g.what = gBlocked, func() bool { return true }, "quiesce"
		var normal []*Goroutine
		for _, o := range s.others(g) {
			normal = append(normal, o)
		}
		next := normal[s.delayPick(len(normal), 0, "next goroutine")]
		s.transfer(g, next)
	}
	g.state, g.cond, g.what = gRunnable, nil, ""
	for _, o := range s.gs {
		if o.state == gBlocked && strings.HasPrefix(o.what, "channel send") {
			s.c.violation("deadlock:stuck-send", o.blockFr, "at quiescence a goroutine is blocked for ever in a channel send: "+fmt.Sprintf("g%d(%s) waits for %s", o.id, o.name, o.what))
			break
		}
	}
	for _, o := range s.gs {
		if o.state == gBlocked && o.onMutex != nil {
			var ws []string
			for _, p := range s.gs {
				if p.state == gBlocked {
					ws = append(ws, fmt.Sprintf("g%d(%s) waits for %s", p.id, p.name, p.what))
				}
			}
			s.c.violation("deadlock:mutex", o.blockFr, "at quiescence a goroutine is still waiting for a mutex: "+strings.Join(ws, "; "))
			break
		}
	}
}

// ---------------------------------------------------------------------------
// go, mutexes, wait groups

func (c *Ctx) spawn(fr *Frame, fv Value, args []Value, call *ssa.CallCommon) {
	s := c.sched
	if s == nil {
		panic(unsupported("go statement (scheduler mode not enabled for this harness)"))
	}
	name := "go"
	if cl, ok := fv.(*Closure); ok && cl != nil && cl.fn != nil {
		name = cl.fn.Name()
	}
	g := s.newG(name)
	g.vc = vcCopy(s.vcOf(s.cur))
	s.tick(s.cur)
	go s.body(g, func() { c.callValue(nil, fv, args, call) })
	s.note("g%d:go g%d(%s)", s.cur.id, g.id, name)
	s.point(fr, "go")
}

func (s *Sched) mstate(k *Value) *mutexState {
	m := s.mutexes[k]
	if m == nil {
		m = &mutexState{}
		s.mutexes[k] = m
	}
	return m
}

func (s *Sched) lock(fr *Frame, k *Value, how string) {
	m := s.mstate(k)
	s.point(fr, "lock")
	g := s.cur
	if how == "RLock" {
		if m.held {
			g.onMutex = k
			s.block(fr, func() bool { return !m.held }, s.lockName(fr, "RLock"))
		}
		m.readers++
		s.acquire(g, m.vc)
		return
	}
	if m.held || m.readers > 0 {
		g.onMutex = k
		s.block(fr, func() bool { return !m.held && m.readers == 0 }, s.lockName(fr, "Lock"))
	}
	m.held, m.owner = true, g
	s.acquire(g, m.vc)
}

func (s *Sched) lockName(fr *Frame, how string) string {
	fn, site := s.c.site(fr)
	return fmt.Sprintf("%s at %s [%s]", how, shortFn(fn), site)
}

func shortFn(fn string) string {
	if i := strings.LastIndex(fn, "/"); i >= 0 {
		return fn[i+1:]
	}
	return fn
}

func (s *Sched) unlock(fr *Frame, k *Value, how string) {
	m := s.mstate(k)
	if how == "RUnlock" {
		if m.readers == 0 {
			s.c.violation("panic:unlock", fr, "sync: RUnlock of unlocked RWMutex")
			panic(pathEnd{"panic"})
		}
		m.readers--
		s.release(s.cur, &m.vc)
		return
	}
	if !m.held {
		s.c.violation("panic:unlock", fr, "sync: unlock of unlocked mutex")
		panic(pathEnd{"panic"})
	}
	m.held, m.owner = false, nil
	s.release(s.cur, &m.vc)
}

func (s *Sched) tryLock(fr *Frame, k *Value) bool {
	m := s.mstate(k)
	if m.held || m.readers > 0 {
		return false
	}
	m.held, m.owner = true, s.cur
	s.acquire(s.cur, m.vc)
	return true
}

func (s *Sched) wakeWG(k *Value) {}

func (s *Sched) wgClock(k *Value) *vclock {
	if s.wgVC == nil {
		s.wgVC = map[*Value]*vclock{}
	}
	if s.wgVC[k] == nil {
		s.wgVC[k] = &vclock{}
	}
	return s.wgVC[k]
}

func (s *Sched) waitWG(fr *Frame, k *Value) {
	s.block(fr, func() bool { return s.c.wg[k] == 0 }, "WaitGroup.Wait")
	s.acquire(s.cur, *s.wgClock(k))
}

// ---------------------------------------------------------------------------
// channels

func (s *Sched) send(fr *Frame, ch *Chan, v Value) {
	s.point(fr, "send")
	if ch == nil {
		s.block(fr, func() bool { return false }, "send on nil channel")
	}
	if ch.closed {
		s.c.violation("panic:send-on-closed", fr, "send on closed channel")
		panic(pathEnd{"panic"})
	}
	if ch.cap > 0 {
		if len(ch.buf) >= ch.cap {
			s.block(fr, func() bool { return len(ch.buf) < ch.cap || ch.closed }, s.chanName(fr, "send"))
			if ch.closed {
				s.c.violation("panic:send-on-closed", fr, "send on closed channel")
				panic(pathEnd{"panic"})
			}
		}
		ch.buf = append(ch.buf, v)
		ch.vcs = append(ch.vcs, vcCopy(s.vcOf(s.cur)))
		s.tick(s.cur)
		return
	}
	// unbuffered: offer the value and wait until a receiver has taken it
	for ch.offered {
		s.block(fr, func() bool { return !ch.offered }, s.chanName(fr, "send"))
	}
	ch.offered, ch.offer, ch.taken = true, v, false
	ch.offerVC = vcCopy(s.vcOf(s.cur))
	s.tick(s.cur)
	s.block(fr, func() bool { return ch.taken }, s.chanName(fr, "send (waiting for a receiver)"))
	ch.taken = false
}

func (s *Sched) chanName(fr *Frame, op string) string {
	fn, site := s.c.site(fr)
	return fmt.Sprintf("channel %s at %s [%s]", op, shortFn(fn), site)
}

func (s *Sched) canRecv(ch *Chan) bool {
	return ch != nil && (len(ch.buf) > 0 || ch.offered || ch.closed)
}

func (s *Sched) takeRecv(ch *Chan, elem types.Type) (Value, bool) {
	if len(ch.buf) > 0 {
		v := ch.buf[0]
		ch.buf = ch.buf[1:]
		if len(ch.vcs) > 0 {
			s.acquire(s.cur, ch.vcs[0])
			ch.vcs = ch.vcs[1:]
		}
		return v, true
	}
	if ch.offered {
		v := ch.offer
		ch.offered, ch.offer, ch.taken = false, nil, true
		s.acquire(s.cur, ch.offerVC)
		return v, true
	}
	s.acquire(s.cur, ch.closeVC)
	return s.c.zero(elem), false // closed
}

func (s *Sched) recv(fr *Frame, ch *Chan, elem types.Type) (Value, bool) {
	s.point(fr, "recv")
	if ch == nil {
		s.block(fr, func() bool { return false }, "receive from nil channel")
	}
	if !s.canRecv(ch) {
		ch.recvWaiting++
		s.block(fr, func() bool { return s.canRecv(ch) }, s.chanName(fr, "receive"))
		ch.recvWaiting--
	}
	return s.takeRecv(ch, elem)
}

func (s *Sched) closeChan(fr *Frame, ch *Chan) {
	ch.closed = true
	ch.closeVC = vcCopy(s.vcOf(s.cur))
	s.tick(s.cur)
}

func (s *Sched) canSend(ch *Chan) bool {
	if ch == nil {
		return false
	}
	if ch.closed {
		return true // will panic
	}
	if ch.cap > 0 {
		return len(ch.buf) < ch.cap
	}
	return ch.recvWaiting > 0 && !ch.offered
}

func (s *Sched) selectOp(fr *Frame, in *ssa.Select) Value {
	c := s.c
	tb := c.tb
	s.point(fr, "select")
	chans := make([]*Chan, len(in.States))
	for i, st := range in.States {
		chans[i], _ = c.get(fr, st.Chan).(*Chan)
	}
	ready := func() []int {
		var r []int
		for i, st := range in.States {
			if st.Dir == types.SendOnly {
				if s.canSend(chans[i]) {
					r = append(r, i)
				}
			} else if s.canRecv(chans[i]) {
				r = append(r, i)
			}
		}
		return r
	}
	nrecv := 0
	for _, st := range in.States {
		if st.Dir == types.RecvOnly {
			nrecv++
		}
	}
	res := make(Tuple, 2+nrecv)
	res[0], res[1] = tb.Int(-1, 64), tb.Bool(false)
	ri := 2
	for _, st := range in.States {
		if st.Dir == types.RecvOnly {
			res[ri] = c.zero(st.Chan.Type().Underlying().(*types.Chan).Elem())
			ri++
		}
	}
	rs := ready()
	if len(rs) == 0 {
		if !in.Blocking {
			return res
		}
		for i, ch := range chans {
			if ch != nil && in.States[i].Dir == types.RecvOnly {
				ch.recvWaiting++ // a blocked select with a receive case counts as a waiting receiver
			}
		}
		s.block(fr, func() bool { return len(ready()) > 0 }, s.chanName(fr, "select"))
		for i, ch := range chans {
			if ch != nil && in.States[i].Dir == types.RecvOnly {
				ch.recvWaiting--
			}
		}
		rs = ready()
	}
	k := rs[c.pick(len(rs), "select case")]
	st := in.States[k]
	res[0] = tb.Int(int64(k), 64)
	if st.Dir == types.SendOnly {
		ch := chans[k]
		if ch.closed {
			c.violation("panic:send-on-closed", fr, "send on closed channel")
			panic(pathEnd{"panic"})
		}
		v := copyVal(c.get(fr, st.Send))
		if ch.cap > 0 {
			ch.buf = append(ch.buf, v)
			ch.vcs = append(ch.vcs, vcCopy(s.vcOf(s.cur)))
			s.tick(s.cur)
		} else {
			ch.offered, ch.offer, ch.taken = true, v, false
			ch.offerVC = vcCopy(s.vcOf(s.cur))
			s.tick(s.cur)
			s.block(fr, func() bool { return ch.taken }, s.chanName(fr, "send (waiting for a receiver)"))
			ch.taken = false
		}
		return res
	}
	v, ok := s.takeRecv(chans[k], st.Chan.Type().Underlying().(*types.Chan).Elem())
	res[1] = tb.Bool(ok)
	ri = 2
	for i, sst := range in.States {
		if sst.Dir == types.RecvOnly {
			if i == k {
				res[ri] = v
			}
			ri++
		}
	}
	return res
}

// ---------------------------------------------------------------------------
// timers (time.AfterFunc / Stop / Reset): firing is a scheduling choice

func inAfterFunc(c *Ctx, fr *Frame, fn *ssa.Function, a []Value) Value {
	if c.sched == nil {
		panic(unsupported("time.AfterFunc outside scheduler mode"))
	}
	s := c.sched
	cell := new(Value)
	tt := c.w.namedType("time", "Timer")
	*cell = c.zero(tt)
	t := &Timer{id: len(s.timers), armed: true, fn: a[1], cell: cell, vc: vcCopy(s.vcOf(s.cur))}
	s.tick(s.cur)
	s.timers = append(s.timers, t)
	s.byCell[cell] = t
	s.note("g%d:arm t%d", s.cur.id, t.id)
	return Ptr{p: cell}
}

func inTimerStop(c *Ctx, fr *Frame, fn *ssa.Function, a []Value) Value {
	p := a[0].(Ptr)
	t := c.sched.byCell[p.p]
	if t == nil {
		panic(unsupported("Stop on unknown timer"))
	}
	was := t.armed
	t.armed = false
	c.sched.note("g%d:stop t%d", c.sched.cur.id, t.id)
	return c.tb.Bool(was)
}

func inTimerReset(c *Ctx, fr *Frame, fn *ssa.Function, a []Value) Value {
	p := a[0].(Ptr)
	t := c.sched.byCell[p.p]
	if t == nil {
		panic(unsupported("Reset on unknown timer"))
	}
	was := t.armed
	t.armed = true
	t.vc = vcCopy(c.sched.vcOf(c.sched.cur))
	c.sched.tick(c.sched.cur)
	c.sched.note("g%d:reset t%d", c.sched.cur.id, t.id)
	return c.tb.Bool(was)
}

func init() {
	intrinsics["time.AfterFunc"] = inAfterFunc
	intrinsics["(*time.Timer).Stop"] = inTimerStop
	intrinsics["(*time.Timer).Reset"] = inTimerReset
}
