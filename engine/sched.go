package main

// Goroutine scheduler (visible-operation interleaving). Placeholder: filled in later.

import (
	"go/types"

	"golang.org/x/tools/go/ssa"
)

type Goroutine struct{ id int }
type schedAbort struct{}
type Sched struct{}

func (s *Sched) traceStrings() []string                               { return nil }
func (s *Sched) yield(fr *Frame, what string)                         {}
func (s *Sched) lock(fr *Frame, k *Value, how string)                 {}
func (s *Sched) unlock(fr *Frame, k *Value, how string)               {}
func (s *Sched) tryLock(fr *Frame, k *Value) bool                     { return true }
func (s *Sched) wakeWG(k *Value)                                      {}
func (s *Sched) waitWG(fr *Frame, k *Value)                           {}
func (s *Sched) send(fr *Frame, ch *Chan, v Value)                    {}
func (s *Sched) recv(fr *Frame, ch *Chan, t types.Type) (Value, bool) { return nil, false }
func (s *Sched) closeChan(fr *Frame, ch *Chan)                        {}
func (s *Sched) selectOp(fr *Frame, in *ssa.Select) Value             { return nil }

func (c *Ctx) spawn(fr *Frame, fv Value, args []Value, call *ssa.CallCommon) {
	panic(unsupported("go statement (scheduler mode not enabled)"))
}

func (c *Ctx) runScheduled(entry *ssa.Function, args []Value) {
	panic(unsupported("scheduler mode"))
}
