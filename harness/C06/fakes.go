package kvcache

import (
	"github.com/ollama/ollama/ml"
)

// Minimal flat fake of ml.Backend / ml.Context / ml.Tensor (pattern of causal_test.go's
// testBackend): tensors are float32 slices, View is a sub-slice, Copy copies, Add adds.

type vfBackend struct{ ml.Backend }

func (b *vfBackend) NewContext() ml.Context        { return &vfCtx{} }
func (b *vfBackend) NewContextSize(int) ml.Context { return &vfCtx{} }

type vfCtx struct{ ml.Context }

func (c *vfCtx) Empty(dtype ml.DType, shape ...int) ml.Tensor {
	total := 0
	if len(shape) > 0 {
		total = 1
		for _, s := range shape {
			total *= s
		}
	}
	return &vfTensor{dtype: dtype, elementSize: 4, data: make([]float32, total), shape: shape}
}
func (c *vfCtx) Zeros(dtype ml.DType, shape ...int) ml.Tensor { return c.Empty(dtype, shape...) }
func (c *vfCtx) FromFloatSlice(s []float32, shape ...int) (ml.Tensor, error) {
	t := c.Empty(ml.DTypeF32, shape...).(*vfTensor)
	copy(t.data, s)
	return t, nil
}
func (c *vfCtx) FromIntSlice(s []int32, shape ...int) (ml.Tensor, error) {
	f := make([]float32, len(s))
	for i := range f {
		f[i] = float32(s[i])
	}
	return c.FromFloatSlice(f, shape...)
}
func (c *vfCtx) Input() ml.Context               { return c }
func (c *vfCtx) Layer(int) ml.Context            { return c }
func (c *vfCtx) Forward(...ml.Tensor) ml.Context { return c }
func (c *vfCtx) Compute(...ml.Tensor)            {}
func (c *vfCtx) Reserve() error                  { return nil }
func (c *vfCtx) MaxGraphNodes() int              { return 10 }
func (c *vfCtx) Close()                          {}

type vfTensor struct {
	ml.Tensor
	dtype       ml.DType
	elementSize int
	data        []float32
	shape       []int
}

func (t *vfTensor) Dim(n int) int { return t.shape[n] }
func (t *vfTensor) Stride(n int) int {
	s := t.elementSize
	for i := 0; i < n; i++ {
		s *= t.shape[i]
	}
	return s
}
func (t *vfTensor) Shape() []int      { return t.shape }
func (t *vfTensor) DType() ml.DType   { return t.dtype }
func (t *vfTensor) Floats() []float32 { return append([]float32{}, t.data...) }
func (t *vfTensor) Add(ctx ml.Context, t2 ml.Tensor) ml.Tensor {
	o := t2.(*vfTensor)
	out := (&vfCtx{}).Empty(t.dtype, t.shape...).(*vfTensor)
	for i := range out.data {
		out.data[i] = t.data[i] + o.data[i%len(o.data)]
	}
	return out
}
func (t *vfTensor) View(ctx ml.Context, offset int, shape ...int) ml.Tensor {
	offset /= t.elementSize
	var s []int
	switch len(shape) {
	case 1:
		s = []int{shape[0]}
	case 5:
		s = []int{shape[0], shape[2], shape[4]}
	default:
		panic("vfTensor.View: unsupported shape")
	}
	v := (&vfCtx{}).Empty(t.dtype, s...).(*vfTensor)
	v.data = t.data[offset : offset+len(v.data)]
	return v
}
func (t *vfTensor) Copy(ctx ml.Context, t2 ml.Tensor) ml.Tensor {
	copy(t2.(*vfTensor).data, t.data)
	return nil
}
