package kvcache

import (
	"errors"
	"math"

	"github.com/ollama/ollama/ml"
	"github.com/ollama/ollama/model/input"
)

// C06: bounded histories of cache operations from an empty cache against a ghost
// specification: a list of live entries (data id, owning sequences, position).
//
// The harness behaves like the documented caller (the runner): batch positions continue each
// sequence; a suffix removal Remove(seq,b,MaxInt32) with b>0 is preceded by CanResume and
// becomes a full removal when that says no; on a Remove error the whole sequence is removed.

type vfEntry struct {
	data float32
	id   float32 // the value rows carry (id+0.25, id+0.5): values are never re-rotated
	own  [vfMaxSeq]bool
	pos  int32
	live bool
	// ghost bookkeeping for known-finding classes
}

const vfMaxSeq = 3

type vfGhost struct {
	e       []vfEntry
	nextID  float32
	evicted [vfMaxSeq]bool // sequence has lost entries to sliding-window eviction (class K2/K3)
	window  int32
}

func (g *vfGhost) count(seq int) int32 {
	var n int32
	for i := range g.e {
		if g.e[i].live && g.e[i].own[seq] {
			n++
		}
	}
	return n
}

func (g *vfGhost) maxpos(seq int) int32 {
	m := int32(-1)
	for i := range g.e {
		if g.e[i].live && g.e[i].own[seq] && g.e[i].pos > m {
			m = g.e[i].pos
		}
	}
	return m
}

func (g *vfGhost) gc() {
	for i := range g.e {
		any := false
		for s := 0; s < vfMaxSeq; s++ {
			if g.e[i].own[s] {
				any = true
			}
		}
		if !any {
			g.e[i].live = false
		}
	}
}

func (g *vfGhost) removeAll(seq int) {
	for i := range g.e {
		g.e[i].own[seq] = false
	}
	g.gc()
}

type vfHarness struct {
	cache   *Causal
	ctx     ml.Context
	g       *vfGhost
	nseq    int
	perSeq  int
	defrags int
}

func vfNew(window int, nseq, perSeq, maxBatch int) *vfHarness {
	backend := &vfBackend{}
	shift := func(ctx ml.Context, layer int, key, shift ml.Tensor) (ml.Tensor, error) { return key.Add(ctx, shift), nil }
	var cache *Causal
	g := &vfGhost{nextID: 1000, window: math.MaxInt32}
	if window > 0 {
		cache = NewSWACache(int32(window), shift)
		g.window = int32(window)
	} else {
		cache = NewCausalCache(shift)
	}
	cache.Init(backend, ml.DTypeF16, nseq, perSeq, maxBatch)
	return &vfHarness{cache: cache, ctx: backend.NewContext(), g: g, nseq: nseq, perSeq: perSeq}
}

// forward: a batch of b tokens; token i belongs to sequence seqs[i]; positions continue each sequence.
func (h *vfHarness) forward(seqs []int) {
	g := h.g
	var pos []int32
	var ss []int
	next := [vfMaxSeq]int32{-1, -1, -1}
	for _, s := range seqs {
		if next[s] < 0 {
			next[s] = g.maxpos(s) + 1
		}
		if next[s] >= int32(h.perSeq) { // the runner never exceeds the context length per sequence
			continue
		}
		pos = append(pos, next[s])
		ss = append(ss, s)
		next[s]++
	}
	if len(pos) == 0 {
		return
	}
	freeBefore := 0
	for i := range h.cache.cells {
		if len(h.cache.cells[i].sequences) == 0 {
			freeBefore++
		}
	}
	err := h.cache.StartForward(h.ctx, input.Batch{Positions: pos, Sequences: ss}, false)
	if err != nil {
		verifAssert(errors.Is(err, ErrKvCacheFull), "forward-error-is-cache-full")
		// a full cache is reported only when there really are fewer free cells than the batch needs
		// (window eviction may have freed more, never fewer)
		if g.window == math.MaxInt32 {
			verifAssert(freeBefore < len(pos), "cache-full-only-when-not-enough-free-cells")
		}
		return
	}
	data := make([]float32, len(pos))
	for i := range data {
		data[i] = g.nextID
		g.nextID += 1000
	}
	h.cache.SetLayer(0)
	tensor, _ := h.ctx.FromFloatSlice(data, 1, 1, len(pos))
	// the value head is twice as wide as the key head (models with different K and V head sizes)
	vdata := make([]float32, 2*len(pos))
	for i := range data {
		vdata[2*i], vdata[2*i+1] = data[i]+0.25, data[i]+0.5
	}
	vtensor, _ := h.ctx.FromFloatSlice(vdata, 2, 1, len(pos))
	h.cache.Put(h.ctx, tensor, vtensor)
	for i := range pos {
		var e vfEntry
		e.data, e.id, e.pos, e.live = data[i], data[i], pos[i], true
		e.own[ss[i]] = true
		g.e = append(g.e, e)
	}
	// The specification has no eviction: the window only filters what a token may see. The ghost
	// merely remembers which sequences have had entries fall out of the window, because the
	// implementation's eviction is destructive (known-finding classes K2/K3).
	if g.window != math.MaxInt32 {
		for s := 0; s < vfMaxSeq; s++ {
			low := int32(-1)
			for i := range pos {
				if ss[i] == s && (low < 0 || pos[i] < low) {
					low = pos[i]
				}
			}
			if low < 0 {
				continue
			}
			for i := range g.e {
				if g.e[i].live && g.e[i].own[s] && g.e[i].pos < low-g.window {
					g.evicted[s] = true
				}
			}
		}
	}
	out, vout, mask := h.cache.Get(h.ctx)
	keys := out.Floats()
	vals := vout.Floats()
	m := mask.Floats()
	n := len(keys)
	verifAssert(len(m) >= len(pos)*n, "mask-covers-batch")
	verifAssert(len(vals) == 2*n, "value-window-matches-key-window")
	for i := range pos {
		// every ghost entry visible to this token is exposed exactly once with its data,
		// and nothing else is exposed
		known := g.evicted[ss[i]]
		for j := 0; j < n; j++ {
			if m[i*n+j] != 0 {
				continue
			}
			found := 0
			for k := range g.e {
				e := &g.e[k]
				if e.live && e.own[ss[i]] && e.pos <= pos[i] && (g.window == math.MaxInt32 || e.pos >= pos[i]-g.window) && e.data == keys[j] {
					found++
					if len(vals) == 2*n {
						vfAssertClass(vals[2*j] == e.id+0.25 && vals[2*j+1] == e.id+0.5, "exposed-value-row-belongs-to-its-key", known)
					}
				}
			}
			vfAssertClass(found == 1, "exposed-entry-is-in-the-history", known)
		}
		for k := range g.e {
			e := &g.e[k]
			if !(e.live && e.own[ss[i]] && e.pos <= pos[i] && (g.window == math.MaxInt32 || e.pos >= pos[i]-g.window)) {
				continue
			}
			seen := 0
			for j := 0; j < n; j++ {
				if m[i*n+j] == 0 && keys[j] == e.data {
					seen++
				}
			}
			vfAssertClass(seen == 1, "history-entry-is-exposed-once", known)
		}
	}
}

// vfAssertClass routes a violation to a known-finding class tag when the ghost predicate says so.
func vfAssertClass(ok bool, tag string, windowEvicted bool) {
	if windowEvicted {
		verifAssert(ok, tag+"@window-evicted-sequence")
	} else {
		verifAssert(ok, tag)
	}
}

func (h *vfHarness) remove(s int, b, e int32) {
	g := h.g
	n := g.maxpos(s) + 1
	if n == 0 {
		return
	}
	if e == math.MaxInt32 && b > 0 && !h.cache.CanResume(s, b) {
		b = 0
	}
	err := h.cache.Remove(s, b, e)
	if err != nil {
		err2 := h.cache.Remove(s, 0, math.MaxInt32)
		verifAssert(err2 == nil, "full-remove-succeeds")
		g.removeAll(s)
		return
	}
	// Remove succeeded: it must not have re-positioned an entry that another sequence shares (the cache
	// keeps one position per cell; the other sequence would see its entry move)
	if e != math.MaxInt32 {
		for i := range g.e {
			x := &g.e[i]
			if x.live && x.own[s] && x.pos >= e {
				for o := range x.own {
					if o != s && x.own[o] {
						verifAssert(false, "remove-does-not-shift-an-entry-shared-with-another-sequence")
					}
				}
			}
		}
	}
	for i := range g.e {
		x := &g.e[i]
		if !x.live || !x.own[s] {
			continue
		}
		if x.pos >= b && x.pos < e {
			x.own[s] = false
		} else if e != math.MaxInt32 && x.pos >= e {
			x.pos += b - e
			x.data += float32(b - e)
		}
	}
	g.gc()
}

func (h *vfHarness) copyPrefix(src, dst int, l int32) {
	g := h.g
	if src == dst {
		return
	}
	h.cache.CopyPrefix(src, dst, l)
	for i := range g.e {
		g.e[i].own[dst] = false
	}
	for i := range g.e {
		if g.e[i].live && g.e[i].own[src] && g.e[i].pos < l {
			g.e[i].own[dst] = true
		}
	}
	if g.evicted[src] {
		g.evicted[dst] = true
	}
	g.gc()
}

// one solver-chosen operation
func (h *vfHarness) step(maxBatch int) {
	switch verifChoice(3) {
	case 0: // forward: batch size and owner of each token
		b := 1 + verifChoice(maxBatch)
		seqs := make([]int, b)
		mixed := verifChoice(2) == 1
		first := verifChoice(h.nseq)
		for i := range seqs {
			seqs[i] = first
			if mixed && i >= (b+1)/2 {
				seqs[i] = (first + 1) % h.nseq
			}
		}
		h.forward(seqs)
	case 1: // remove: suffix removals take a symbolic begin; middle removals (with shift) concrete bounds
		s := verifChoice(h.nseq)
		n := h.g.maxpos(s) + 1
		if n == 0 {
			return
		}
		if verifChoice(2) == 0 {
			b := verifNondetInt32("removeFrom")
			verifAssume(b >= 0 && b <= n)
			h.remove(s, b, math.MaxInt32)
		} else {
			b := int32(verifChoice(int(n) + 1))
			e := b + int32(verifChoice(int(n-b)+1))
			h.remove(s, b, e)
		}
	case 2:
		src := verifChoice(h.nseq)
		dst := (src + 1 + verifChoice(h.nseq-1)) % h.nseq
		l := verifNondetInt32("prefixLen")
		verifAssume(l >= 0 && l <= h.g.maxpos(src)+1)
		h.copyPrefix(src, dst, l)
	}
}

// VerifC06History: k free operations from an empty cache.
func VerifC06History(k int, window int, nseq int, perSeq int, maxBatch int) {
	h := vfNew(window, nseq, perSeq, maxBatch)
	for i := 0; i < k; i++ {
		h.step(maxBatch)
	}
	verifReach("history-done")
}

// VerifC06Defrag: the shape that reaches defragmentation in few steps on 2 sequences x 3 cells:
// fill both sequences, trim both by solver-chosen amounts (fragmenting the cell array), place a
// solver-chosen mixed batch (defrag runs when no hole is large enough), then extend each sequence
// by one token and look at what each is shown.
func VerifC06Defrag(window int) {
	h := vfNew(window, 2, 3, 6) // 6 cells
	h.forward([]int{0, 0, 0})
	h.forward([]int{1, 1, 1})
	ba := verifNondetInt32("trimA")
	verifAssume(ba >= 0 && ba <= 3)
	h.remove(0, ba, math.MaxInt32)
	bb := verifNondetInt32("trimB")
	verifAssume(bb >= 0 && bb <= 3)
	h.remove(1, bb, math.MaxInt32)
	na, nb := verifChoice(4), verifChoice(4)
	var seqs []int
	for i := 0; i < na; i++ {
		seqs = append(seqs, 0)
	}
	for i := 0; i < nb; i++ {
		seqs = append(seqs, 1)
	}
	if len(seqs) > 0 {
		h.forward(seqs)
	}
	bc := verifNondetInt32("trimAgain")
	verifAssume(bc >= 0 && bc <= 3)
	h.remove(verifChoice(2), bc, math.MaxInt32)
	h.forward([]int{0})
	h.forward([]int{1})
	verifReach("defrag-shape-done")
}

// VerifC06Window: the shape that exercises sliding-window eviction: grow one sequence token by
// token past the window, then either remove a solver-chosen middle range (position shift) or
// fork a solver-chosen prefix into the other sequence, and extend.
func VerifC06Window(window int) {
	h := vfNew(window, 2, 5, 2)
	n := 2 + verifChoice(3)
	for i := 0; i < n; i++ {
		h.forward([]int{0})
	}
	switch verifChoice(3) {
	case 0:
		b := int32(verifChoice(n + 1))
		e := b + int32(verifChoice(n-int(b)+1))
		h.remove(0, b, e)
		h.forward([]int{0})
	case 1:
		l := verifNondetInt32("prefixLen")
		verifAssume(l >= 0 && l <= int32(n))
		h.copyPrefix(0, 1, l)
		h.forward([]int{1})
	case 2:
		b := verifNondetInt32("trimFrom")
		verifAssume(b >= 0 && b <= int32(n))
		h.remove(0, b, math.MaxInt32)
		h.forward([]int{0})
	}
	h.forward([]int{0, 1})
	verifReach("window-shape-done")
}

// VerifC06Shift: two sequences whose cells interleave (alternating single-token batches), then a
// solver-chosen middle removal with position shift on one of them, then both are extended: the
// shift must re-rope only the removed-from sequence's own later entries.
func VerifC06Shift(window int, rounds int) {
	h := vfNew(window, 2, rounds+2, 2)
	for i := 0; i < rounds; i++ {
		if verifChoice(2) == 0 {
			h.forward([]int{0})
			h.forward([]int{1})
		} else {
			h.forward([]int{0, 1})
		}
	}
	s := verifChoice(2)
	n := int(h.g.maxpos(s) + 1)
	b := int32(verifChoice(n + 1))
	e := b + int32(verifChoice(n-int(b)+1))
	h.remove(s, b, e)
	h.forward([]int{1 - s})
	h.forward([]int{s})
	verifReach("shift-shape-done")
}

// vfAnyRemove: a solver-chosen removal on sequence s: a suffix trim with symbolic begin, or a middle
// removal (with position shift) with case-split bounds.
func (h *vfHarness) vfAnyRemove(s int) {
	n := int(h.g.maxpos(s) + 1)
	if n == 0 {
		return
	}
	if verifChoice(2) == 0 {
		b := verifNondetInt32("trimFrom")
		verifAssume(b >= 0 && b <= int32(n))
		h.remove(s, b, math.MaxInt32)
		return
	}
	b := int32(verifChoice(n + 1))
	e := b + int32(verifChoice(n-int(b)+1))
	h.remove(s, b, e)
}

// VerifC06Defrag2: as VerifC06Defrag on 2 x perSeq cells, with arbitrary (suffix or middle) removals, so
// that holes can lie between live cells of one sequence before the defragmenting batch.
func VerifC06Defrag2(window int, perSeq int) {
	h := vfNew(window, 2, perSeq, 2*perSeq)
	a := make([]int, perSeq)
	b := make([]int, perSeq)
	for i := range b {
		b[i] = 1
	}
	h.forward(a)
	h.forward(b)
	h.vfAnyRemove(0)
	h.vfAnyRemove(1)
	na, nb := verifChoice(perSeq+1), verifChoice(perSeq+1)
	var seqs []int
	for i := 0; i < na; i++ {
		seqs = append(seqs, 0)
	}
	for i := 0; i < nb; i++ {
		seqs = append(seqs, 1)
	}
	if len(seqs) > 0 {
		h.forward(seqs)
	}
	h.forward([]int{0})
	h.forward([]int{1})
	verifReach("defrag2-shape-done")
}

// VerifC06Defrag3: the shape in which defragmentation moves a BLOCK of three consecutive tail cells into a
// hole of three cells at the front while a fourth hole lies elsewhere: sequence a takes cells 0-2, b cell 3,
// a cell 4, b cells 5-7; a is removed (holes 0-2 and 4); a new batch of 1-4 tokens for a needs contiguous
// room; then both sequences continue. Which sequence is a is the solver's choice.
func VerifC06Defrag3(window int) {
	h := vfNew(window, 2, 4, 8)
	a := verifChoice(2)
	b := 1 - a
	h.forward([]int{a, a, a})
	h.forward([]int{b})
	h.forward([]int{a})
	h.forward([]int{b, b, b})
	h.remove(a, 0, math.MaxInt32)
	n := 1 + verifChoice(4)
	seqs := make([]int, n)
	for i := range seqs {
		seqs[i] = a
	}
	h.forward(seqs)
	// drop the end of either sequence by position (the moved cells must still carry their own positions)
	cut := verifNondetInt32("trim")
	verifAssume(cut >= 1 && cut <= 3)
	h.remove(verifChoice(2), cut, math.MaxInt32)
	h.forward([]int{b})
	h.forward([]int{a})
	verifReach("defrag3-shape-done")
}
