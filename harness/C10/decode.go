package ggml

import (
	"encoding/binary"
	"errors"
	"io"
)

// C10: decoding an arbitrary byte stream ends with a model or an error.
//
// The input is an abstract stream of symbolic total length L: every Read serves
// min(len(p), remaining) fresh symbolic bytes, so every file content and every truncation
// point is covered. The harness enters below the 32 KiB bufio layer (covered with concrete
// sizes by C05) so that reads are field-sized.

const vfMaxServe = 24 // stated cut: a single read of more than 24 bytes is not served

type vfStream struct {
	pos, size int64
	reads     int
	eofReads  int
	maxReads  int
	mode      int // focus of the exploration, see vfFocus
	bo        binary.ByteOrder
}

// vfFocus narrows the structure of the file (never its field values) so that deeper parts of the
// decoder are reached within the read bound:
//
//	mode 0: nothing fixed
//	mode 1: version >= 3 header with zero key/values (tensor section and final seeks)
//	mode 2: version >= 3 header with exactly one key/value whose key is "general.alignment"
//	mode 7: version >= 3 header, no key/values, exactly three one-dimensional I8 tensors
//	mode 3..6: as 2 with key "general.architecture", "general.parameter_count", "general.file_type", "general.type"
func (s *vfStream) vfFocus(p []byte, n int) {
	if s.mode == 0 {
		return
	}
	switch s.reads {
	case 1: // version
		if n == 4 {
			verifAssume(s.bo.Uint32(p) >= 3)
		}
	case 2: // V3 { NumTensor, NumKV }
		if n == 16 {
			want := uint64(0)
			if s.mode >= 2 && s.mode != 7 {
				want = 1
			}
			verifAssume(s.bo.Uint64(p[8:16]) == want)
			if s.mode == 7 {
				verifAssume(s.bo.Uint64(p[0:8]) == 3)
			} else {
				verifAssume(s.bo.Uint64(p[0:8]) <= 1)
			}
		}
	}
	if s.mode == 7 && s.reads >= 3 {
		// mode 7: exactly three tensor infos, each { name of 1 byte, 1 dimension, kind I8 }: the dimensions
		// (= sizes in bytes) and recorded offsets stay arbitrary - the running position arithmetic is the subject
		switch (s.reads - 3) % 6 {
		case 0: // name length
			if n == 8 && s.reads < 21 {
				verifAssume(s.bo.Uint64(p) == 1)
			}
		case 2: // number of dimensions
			if n == 4 {
				verifAssume(s.bo.Uint32(p) == 1)
			}
		case 4: // kind
			if n == 4 {
				verifAssume(s.bo.Uint32(p) == 24)
			}
		}
		return
	}
	switch s.reads {
	case 3: // key length
		if s.mode >= 2 && n == 8 {
			verifAssume(s.bo.Uint64(p) == uint64(len(vfKeys[s.mode])))
		}
	case 4: // key bytes
		if s.mode >= 2 && n == len(vfKeys[s.mode]) {
			verifAssume(string(p[:n]) == vfKeys[s.mode])
		}
	}
}

var vfKeys = map[int]string{2: "general.alignment", 3: "general.architecture", 4: "general.parameter_count", 5: "general.file_type", 6: "general.type"}

func (s *vfStream) Read(p []byte) (int, error) {
	if len(p) == 0 {
		return 0, nil
	}
	if len(p) > vfMaxServe {
		verifAssume(false) // stated cut (strings/arrays longer than vfMaxServe bytes in one read)
	}
	if s.pos >= s.size {
		// a decoder that keeps reading after it has been told that the file has ended does not terminate
		s.eofReads++
		verifAssert(s.eofReads <= 3, "decoder-keeps-reading-after-end-of-file")
		if s.eofReads > 3 {
			verifAssume(false)
		}
		return 0, io.EOF
	}
	s.reads++
	if s.reads > s.maxReads {
		verifAssume(false) // stated cut: at most maxReads reads per decode
	}
	n := int64(len(p))
	if s.size-s.pos < n {
		n = s.size - s.pos
	}
	verifFillBytes("byte", p, int(n), vfMaxServe)
	s.vfFocus(p, int(n))
	s.pos += n
	return int(n), nil
}

func (s *vfStream) Seek(off int64, whence int) (int64, error) {
	var np int64
	switch whence {
	case io.SeekStart:
		np = off
	case io.SeekCurrent:
		np = s.pos + off
	case io.SeekEnd:
		np = s.size + off
	default:
		return 0, errors.New("invalid whence")
	}
	if np < 0 {
		return 0, errors.New("negative position") // what *os.File.Seek does
	}
	s.pos = np
	return np, nil
}

// VerifC10Decode: order 0 = little endian, 1 = big endian; maxArray as passed by callers
// (1024 default, -1 = collect everything as "ollama show -v" does).
func VerifC10Decode(order int, maxArray int, maxReads int, mode int) {
	s := &vfStream{maxReads: maxReads, mode: mode}
	s.size = verifNondetInt64("L")
	verifAssume(s.size >= 0 && s.size <= 1<<40)
	// allocations must stay proportional to the input: 64 bytes per input byte + 1 MiB of slack
	verifAllocBudget(uint64(s.size)*64 + 1<<20)
	var bo binary.ByteOrder = binary.LittleEndian
	if order == 1 {
		bo = binary.BigEndian
	}
	s.bo = bo
	c := &containerGGUF{ByteOrder: bo, maxArraySize: maxArray}
	m, err := c.Decode(s)
	verifReach("decode-returned")
	if err != nil {
		return
	}
	verifReach("decode-succeeded")
	// what callers do next with a decoded model
	end, _ := s.Seek(0, io.SeekCurrent)
	verifAssert(end >= 0, "end-offset-non-negative")
	kv := m.KV()
	_ = kv.Architecture()
	_ = kv.Uint("general.alignment", 32)
	_ = kv.ParameterCount()
	_ = kv.FileType()
	_ = kv.Kind()
	_ = kv.BlockCount()
	_ = kv.ContextLength()
	_ = kv.ChatTemplate()
	_ = m.Tensors()
	// progress: the returned end offset is what create.go's "for offset < size" loop advances by;
	// a successful decode of a non-empty header must report an end offset past the header
	verifAssert(end >= 12, "successful-decode-makes-progress")
}
