package ggml

// C10, after decoding: the size estimates that model loading computes from the decoded metadata
// (GGML.GraphSize and KV.GQA, called by llm.EstimateGPULayers for every model that is loaded). The
// metadata is what an untrusted file may hold: each key the estimate reads is absent, holds a value of the
// expected type with arbitrary contents, or holds a value of another type; tensors of the names the
// estimate looks at have one or two dimensions.

func vfArbValue(tag string) (any, bool) {
	switch verifChoice(3) {
	case 0:
		return nil, false // key absent
	case 1:
		return verifNondetU32(tag), true
	}
	return "a string where a number is expected", true
}

// VerifC10GraphSize: arch 0 = llama, 1 = mllama, 2 = gemma3, 3 = an architecture without a formula.
// blocks: 0 = the block count is at most 2 (what is decided is the arithmetic); 1 = only the block count is
// arbitrary (what is decided is the allocation it is trusted for).
func VerifC10GraphSize(arch int, blocks int) {
	name := []string{"llama", "mllama", "gemma3", "other", "chatglm", "command-r", "qwen2", "phi2", "stablelm", "deepseek2"}[arch]
	kv := KV{"general.architecture": name}
	keys := []string{"embedding_length", "attention.head_count", "attention.head_count_kv", "feed_forward_length"}
	if blocks != 0 {
		keys = nil
		kv[name+".block_count"] = verifNondetU32("block_count")
	} else if verifChoice(2) == 1 {
		n := verifNondetU32("block_count")
		verifAssume(n <= 2)
		kv[name+".block_count"] = n
	}
	for _, k := range keys {
		if arch >= 4 {
			// the metadata is well-typed here; the tensors' shapes are the subject
			kv[name+"."+k] = verifNondetU32(k)
			continue
		}
		if v, ok := vfArbValue(k); ok {
			kv[name+"."+k] = v
		}
	}
	tokChoice := 1
	if arch < 4 {
		tokChoice = verifChoice(3)
	}
	switch tokChoice {
	case 1:
		kv["tokenizer.ggml.tokens"] = &array{size: int(verifNondetU32("vocab"))}
	case 2:
		kv["tokenizer.ggml.tokens"] = "not an array"
	}
	if arch == 1 {
		// an array the estimate reads through a typed accessor: absent, declared but not collected (the
		// decoder keeps only the count of arrays above its limit), collected with 32-bit integers of
		// either signedness, or collected with elements of another type
		switch verifChoice(4) {
		case 1:
			n := verifNondetU32("declared")
			verifAssume(n <= 3)
			kv[name+".attention.cross_attention_layers"] = &array{size: int(n)}
		case 2:
			kv[name+".attention.cross_attention_layers"] = &array{size: 2, values: []any{verifNondetU32("elem"), verifNondetInt32("elem")}}
		case 3:
			kv[name+".attention.cross_attention_layers"] = &array{size: 1, values: []any{"a string"}}
		}
	}
	var ts []*Tensor
	ffnChoice := 0
	if arch < 4 {
		ffnChoice = verifChoice(3)
	}
	switch ffnChoice {
	case 1:
		shape := []uint64{verifNondetU64("dim")}
		if verifChoice(2) == 1 {
			shape = append(shape, verifNondetU64("dim"))
		}
		ts = append(ts, &Tensor{Name: "blk.0.ffn_gate.0.weight", Kind: 0, Shape: shape})
	case 2:
		ts = append(ts, &Tensor{Name: "blk.0.ffn_gate_exps.weight", Kind: 0, Shape: []uint64{verifNondetU64("dim")}})
	}
	if arch >= 4 {
		// tensors the other architectures' formulas look at, with 0, 1 or 2 dimensions
		for _, tn := range []string{"blk.0.attn_qkv.bias", "blk.0.attn_qkv.weight", "token_embd.weight"} {
			switch verifChoice(4) {
			case 1:
				ts = append(ts, &Tensor{Name: tn, Kind: 0, Shape: []uint64{}})
			case 2:
				ts = append(ts, &Tensor{Name: tn, Kind: 0, Shape: []uint64{verifNondetU64("dim")}})
			case 3:
				ts = append(ts, &Tensor{Name: tn, Kind: 0, Shape: []uint64{verifNondetU64("dim"), verifNondetU64("dim")}})
			}
		}
	}
	f := GGML{container: &containerGGUF{}, model: &gguf{containerGGUF: &containerGGUF{}, kv: kv, tensors: ts}}
	ctx, batch := verifNondetU64("context"), verifNondetU64("batch")
	verifAssume(ctx <= 1<<20 && batch <= 1<<20)
	verifAllocBudget(1 << 26) // 64 MiB: no field of the file may be trusted for more
	f.GraphSize(ctx, batch, 1, "f16")
	verifReach("graph-size-computed")
	f.KV().GQA()
	verifReach("gqa-computed")
}
