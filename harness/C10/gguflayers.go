package server

import (
	"errors"
	"io"
	"io/fs"
	"os"
	"time"

	"github.com/ollama/ollama/api"
	"github.com/ollama/ollama/fs/ggml"
)

// C10, create-side clause: splitting an uploaded blob into GGUF layers terminates and hands every
// model's exact byte range to the layer writer. ggml.Decode is replaced by its CONTRACT as established
// by the decoder check: it decodes from the reader's current position and, on success, leaves the
// reader at (and returns) an end offset strictly beyond where it started — in the READER'S OWN
// coordinates; it may also fail. The blob is a model file (size, position).

var (
	vfBlobSize  int64
	vfBlobPos   int64
	vfBlob      *os.File
	vfDecodes   int
	vfSections  [][2]int64 // (offset, length) handed to NewLayer
	vfModelEnds []int64    // absolute end offsets of successfully decoded models
	vfGG        *ggml.GGML
)

type vfStatInfo struct{ size int64 }

func (i vfStatInfo) Name() string       { return "blob" }
func (i vfStatInfo) Size() int64        { return i.size }
func (i vfStatInfo) Mode() fs.FileMode  { return 0o644 }
func (i vfStatInfo) ModTime() time.Time { return time.Time{} }
func (i vfStatInfo) IsDir() bool        { return false }
func (i vfStatInfo) Sys() any           { return nil }

func vfLayersBlobsPath(digest string) (string, error) { return "/models/blobs/x", nil }
func vfOpenBlob(name string) (*os.File, error)        { vfBlob = new(os.File); vfBlobPos = 0; return vfBlob, nil }
func vfBlobClose(f *os.File) error                    { return nil }
func vfBlobStat(f *os.File) (os.FileInfo, error)      { return vfStatInfo{vfBlobSize}, nil }
func vfBlobName(f *os.File) string                    { return "/models/blobs/x" }
func vfDetect(r io.Reader) (string, error)            { return "gguf", nil }
func vfBlobSeek(f *os.File, off int64, whence int) (int64, error) {
	switch whence {
	case io.SeekStart:
		vfBlobPos = off
	case io.SeekCurrent:
		vfBlobPos += off
	case io.SeekEnd:
		vfBlobPos = vfBlobSize + off
	}
	if vfBlobPos < 0 {
		return 0, errors.New("negative position")
	}
	return vfBlobPos, nil
}
func vfBlobReadAt(f *os.File, p []byte, off int64) (int, error) {
	if off >= vfBlobSize {
		return 0, io.EOF
	}
	return len(p), nil
}

// contract of ggml.Decode (see above); consumes 1..3 units or fails
func vfDecodeContract(rs io.ReadSeeker, maxArraySize int) (*ggml.GGML, int64, error) {
	vfDecodes++
	verifAssert(vfDecodes <= int(vfBlobSize)+1, "layer-splitting-terminates")
	if vfDecodes > int(vfBlobSize)+1 {
		verifAssume(false) // already reported; do not follow the non-terminating loop further
	}
	start, err := rs.Seek(0, io.SeekCurrent)
	if err != nil {
		return nil, 0, err
	}
	switch verifChoice(3) {
	case 0:
		return nil, 0, errors.New("invalid file magic")
	case 1:
		return nil, 0, io.EOF
	}
	k := int64(1 + verifChoice(3))
	end, err := rs.Seek(start+k, io.SeekStart)
	if err != nil {
		return nil, 0, err
	}
	vfModelEnds = append(vfModelEnds, vfBlobPos) // the blob's own position after this decode
	return vfGG, end, nil
}

func vfNewLayerFromLayer(digest, mediatype, from string) (Layer, error) {
	vfSections = append(vfSections, [2]int64{0, vfBlobSize})
	return Layer{Digest: "sha256:whole", MediaType: mediatype}, nil
}

func vfNewLayer(r io.Reader, mediatype string) (Layer, error) {
	sr, _ := r.(*io.SectionReader)
	verifAssert(sr != nil, "layer-source-is-a-section-of-the-blob")
	if sr != nil {
		start, _ := sr.Seek(0, io.SeekCurrent)
		_ = start
		vfSections = append(vfSections, [2]int64{vfSectionBase(sr), sr.Size()})
	}
	return Layer{Digest: "sha256:part", MediaType: mediatype}, nil
}

// base offset of a SectionReader: read position 0 of the section maps to this blob offset
func vfSectionBase(sr *io.SectionReader) int64 {
	vfProbe = -1
	sr.ReadAt(make([]byte, 1), 0)
	return vfProbe
}

var vfProbe int64

func vfBlobReadAtProbe(f *os.File, p []byte, off int64) (int, error) {
	vfProbe = off
	return vfBlobReadAt(f, p, off)
}

func vfDetectChatTemplate(layers []*layerGGML) ([]*layerGGML, error) { return layers, nil }

// VerifC10Layers: blob of `size` units holding an arbitrary sequence of models (each 1-3 units) and junk.
func VerifC10Layers(size int, withDigest int) {
	vfBlobSize, vfBlobPos, vfDecodes, vfSections, vfModelEnds = int64(size), 0, 0, nil, nil
	vfGG = ggml.VerifNewGGML(ggml.KV{"general.architecture": "x"}, nil)
	digest := ""
	if withDigest != 0 {
		digest = "sha256:whole"
	}
	layers, err := ggufLayers(digest, func(api.ProgressResponse) {})
	verifReach("split-returned")
	if err != nil {
		return
	}
	verifReach("split-succeeded")
	verifAssert(len(layers) == len(vfSections), "one-layer-per-decoded-model")
	// every layer is exactly the byte range of one decoded model, in order
	prev := int64(0)
	for i, sec := range vfSections {
		if i < len(vfModelEnds) {
			verifAssert(sec[0] == prev, "layer-starts-where-the-previous-model-ended")
			verifAssert(sec[0]+sec[1] == vfModelEnds[i] || (sec[0] == 0 && sec[1] == vfBlobSize && vfModelEnds[i] == vfBlobSize), "layer-covers-exactly-its-model")
			prev = vfModelEnds[i]
		}
	}
}
