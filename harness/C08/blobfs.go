package blob

import (
	"errors"
	"hash"
	"io"
	"io/fs"
	"os"
	"time"
)

// C08 harness: the real copyNamedFile / checkWriter / Chunked / Chunker.Put / Get run against a
// MODEL FILE SYSTEM written in the harness (replacements for os.Stat, os.OpenFile, (*os.File).Write,
// WriteAt, Truncate, Close, Stat, os.Remove, os.Chtimes). Every mutating call may fail, write
// short, or be the last thing that happens: the on-disk invariant
//
//	size == expected size  =>  content == expected content
//
// is asserted on the state after every mutating call AND after every byte of every write (the
// process may die at any byte position). SHA-256 is replaced by an injective function on
// inputs <= 8 bytes (collision freedom is the only property of the hash that is assumed).

const vfMaxFile = 8

type vfFileState struct {
	exists bool
	size   int
	data   [vfMaxFile]byte
}

var (
	vfDisk     vfFileState // one file: the blob under test
	vfWant     []byte      // expected content
	vfOpen     = map[*os.File]bool{}
	vfPos      = map[*os.File]int{}
	vfFaults   int // remaining injected faults
	vfCheckOn  bool
	vfWritten  bool
)

var (
	vfChunkMode        bool
	vfConcurrent       bool
	vfCovered          []bool
	vfCurLo, vfCurHi   int
)

func vfInvariant(tag string) {
	if !vfCheckOn {
		return
	}
	if vfChunkMode {
		// known-finding class: the file has reached full size although some range was never stored
		hole := false
		for i, cv := range vfCovered {
			if !cv && !(i >= vfCurLo && i <= vfCurHi) {
				hole = true
			}
		}
		if hole {
			tag = "chunk-missing"
		} else {
			tag = "chunks-complete"
		}
	}
	if vfConcurrent {
		tag = "concurrent-writers"
	}
	if vfDisk.exists && vfDisk.size == len(vfWant) {
		same := true
		for i := range vfWant {
			if vfDisk.data[i] != vfWant[i] {
				same = false
			}
		}
		verifAssert(same, "file-of-expected-size-has-expected-content@"+tag)
	}
}

func vfFault() bool {
	if vfFaults > 0 && verifChoice(2) == 1 {
		vfFaults--
		return true
	}
	return false
}

type vfInfo struct{ size int64 }

func (i vfInfo) Name() string       { return "blob" }
func (i vfInfo) Size() int64        { return i.size }
func (i vfInfo) Mode() fs.FileMode  { return 0o644 }
func (i vfInfo) ModTime() time.Time { return time.Time{} }
func (i vfInfo) IsDir() bool        { return false }
func (i vfInfo) Sys() any           { return nil }

// truncation discards the bytes beyond the new length: a later write past the end leaves zeros in between
func vfShrink(size int) {
	for i := size; i < vfDisk.size && i < vfMaxFile; i++ {
		vfDisk.data[i] = 0
	}
	vfDisk.size = size
}

func vfStat(name string) (os.FileInfo, error) {
	verifYield()
	if !vfDisk.exists {
		return nil, fs.ErrNotExist
	}
	return vfInfo{int64(vfDisk.size)}, nil
}

func vfOpenFile(name string, flag int, perm os.FileMode) (*os.File, error) {
	if vfFault() {
		return nil, errors.New("open failed")
	}
	if !vfDisk.exists {
		if flag&os.O_CREATE == 0 {
			return nil, fs.ErrNotExist
		}
		vfDisk.exists, vfDisk.size = true, 0
	}
	if flag&os.O_TRUNC != 0 {
		vfShrink(0)
	}
	vfInvariant("open")
	f := new(os.File)
	vfOpen[f] = true
	vfPos[f] = 0
	return f, nil
}

// write p at offset off, byte by byte (the process may die after any byte), possibly short
func vfWriteAtOff(f *os.File, p []byte, off int) (int, error) {
	verifYield() // a concurrent writer may run between file-system calls
	if !vfOpen[f] {
		return 0, os.ErrClosed
	}
	n := len(p)
	fail := vfFault()
	if fail {
		n = verifChoice(len(p) + 1) // short write: some prefix lands, then an error
	}
	for i := 0; i < n; i++ {
		at := off + i
		if at >= vfMaxFile {
			verifAssume(false) // bound of the model file
		}
		vfDisk.data[at] = p[i]
		if at+1 > vfDisk.size {
			vfDisk.size = at + 1
		}
		vfInvariant("write")
	}
	if fail {
		return n, errors.New("write failed")
	}
	return n, nil
}

func vfWrite(f *os.File, p []byte) (int, error) {
	n, err := vfWriteAtOff(f, p, vfPos[f])
	vfPos[f] += n
	return n, err
}

func vfWriteAt(f *os.File, p []byte, off int64) (int, error) {
	return vfWriteAtOff(f, p, int(off))
}

func vfTruncate(f *os.File, size int64) error {
	verifYield()
	if vfFault() {
		return errors.New("truncate failed")
	}
	if int(size) < vfDisk.size {
		vfShrink(int(size))
	}
	vfInvariant("truncate")
	return nil
}

func vfClose(f *os.File) error {
	if !vfOpen[f] {
		return os.ErrClosed
	}
	vfOpen[f] = false
	if vfFault() {
		return errors.New("close failed")
	}
	return nil
}

func vfFileStat(f *os.File) (os.FileInfo, error) { return vfInfo{int64(vfDisk.size)}, nil }

func vfRemove(name string) error {
	if vfFault() {
		return errors.New("remove failed")
	}
	vfDisk.exists, vfDisk.size = false, 0
	return nil
}

func vfChtimes(name string, a, m time.Time) error { return nil }
func vfGetFile(c *DiskCache, d Digest) string      { return "/cache/blobs/x" }

// ---- injective stand-in for SHA-256 (inputs <= 8 bytes) ----

type vfHash struct {
	buf []byte
}

func vfNewHash() hash.Hash { return &vfHash{} }
func (h *vfHash) Write(p []byte) (int, error) {
	h.buf = append(h.buf, p...)
	return len(p), nil
}
func (h *vfHash) Sum(b []byte) []byte {
	s := vfSum(h.buf)
	return append(b, s[:]...)
}
func (h *vfHash) Reset()         { h.buf = nil }
func (h *vfHash) Size() int      { return 32 }
func (h *vfHash) BlockSize() int { return 64 }

func vfSum(data []byte) [32]byte {
	var s [32]byte
	if len(data) > 8 {
		verifAssume(false) // bound of the injective hash model
	}
	s[0] = byte(len(data)) + 1
	for i, b := range data {
		s[1+i] = b
	}
	return s
}

// ---- faulty source ----

type vfSource struct {
	reads    int
	maxReads int
	maxChunk int
}

func (s *vfSource) Read(p []byte) (int, error) {
	if s.reads >= s.maxReads {
		return 0, io.EOF
	}
	s.reads++
	switch verifChoice(3) {
	case 0:
		return 0, io.EOF
	case 1:
		return 0, errors.New("source failed")
	}
	n := 1 + verifChoice(s.maxChunk)
	for i := 0; i < n; i++ {
		p[i] = verifNondetU8("src")
	}
	return n, nil
}

func vfSetup(size int, prior int, faults int) Digest {
	vfOpen, vfPos = map[*os.File]bool{}, map[*os.File]int{}
	vfChunkMode, vfCovered, vfCurLo, vfCurHi = false, nil, -1, -1
	vfConcurrent = false
	vfWant = make([]byte, size)
	for i := range vfWant {
		vfWant[i] = verifNondetU8("blob")
	}
	vfDisk = vfFileState{}
	// prior state of the file: absent, or present with arbitrary content of the chosen size — but a
	// file that already has the expected size is assumed to satisfy the invariant (inductive step)
	if prior >= 0 {
		vfDisk.exists, vfDisk.size = true, prior
		for i := 0; i < prior; i++ {
			vfDisk.data[i] = verifNondetU8("old")
		}
		if prior == size {
			for i := 0; i < size; i++ {
				verifAssume(vfDisk.data[i] == vfWant[i])
			}
		}
	}
	vfFaults = faults
	vfCheckOn = true
	return Digest{sum: vfSum(vfWant)}
}

// VerifC08Put: one Put of a blob of `size` bytes from an arbitrary (possibly corrupt, short, long or
// failing) source over every prior file state, with up to `faults` injected file-system faults.
func VerifC08Put(size int, prior int, maxReads int, maxChunk int, faults int) {
	d := vfSetup(size, prior, faults)
	c := &DiskCache{dir: "/cache", now: time.Now}
	err := c.Put(d, &vfSource{maxReads: maxReads, maxChunk: maxChunk}, int64(size))
	verifReach("put-returned")
	vfInvariant("after-put")
	if err == nil {
		verifReach("put-succeeded")
		// a successful store makes the blob retrievable with that size and those bytes
		e, gerr := c.Get(d)
		if size > 0 {
			verifAssert(gerr == nil && e.Size == int64(size), "successful-put-is-retrievable")
		}
		same := vfDisk.exists && vfDisk.size == size
		for i := 0; same && i < size; i++ {
			if vfDisk.data[i] != vfWant[i] {
				same = false
			}
		}
		verifAssert(same, "successful-put-stored-the-blob")
	}
}

// VerifC08PutAnnounced: a Put whose announced size differs from the size of the content the digest stands
// for (a manifest that lies about a layer's size, a truncated transfer): whatever the source delivers, once
// Put has RETURNED (no crash, no file-system fault) the file is not left with the blob's true size and
// other content - a later, honest Put of that size would take it for the blob.
func VerifC08PutAnnounced(size int, announced int, maxReads int, maxChunk int) {
	d := vfSetup(size, -1, 0)
	vfCheckOn = false // states inside the operation are the subject of VerifC08Put
	c := &DiskCache{dir: "/cache", now: time.Now}
	err := c.Put(d, &vfSource{maxReads: maxReads, maxChunk: maxChunk}, int64(announced))
	verifReach("put-returned")
	vfCheckOn = true
	vfInvariant("after-put-with-wrong-announced-size")
	if err == nil {
		verifReach("put-succeeded")
	}
}

// VerifC08Chunked: up to nPuts chunk writes with solver-chosen ranges and sources.
func VerifC08Chunked(size int, nPuts int, faults int) {
	d := vfSetup(size, -1, faults)
	c := &DiskCache{dir: "/cache", now: time.Now}
	ck, err := c.Chunked(d, int64(size))
	if err != nil {
		return
	}
	covered := make([]bool, size)
	vfChunkMode, vfCovered = true, covered
	for k := 0; k < nPuts; k++ {
		start := verifChoice(size)
		end := start + verifChoice(size-start)
		chunk := Chunk{Start: int64(start), End: int64(end)}
		// the chunk's own digest is that of the right bytes; the source may or may not deliver them
		data := make([]byte, end-start+1)
		good := verifChoice(2) == 1
		for i := range data {
			data[i] = vfWant[start+i]
			if !good {
				data[i] = verifNondetU8("bad")
			}
		}
		vfCurLo, vfCurHi = start, end
		perr := ck.Put(chunk, Digest{sum: vfSum(vfWant[start : end+1])}, &vfBytes{b: data})
		vfCurLo, vfCurHi = -1, -1
		// what the 'v1 pull chunksum' markers of Registry.Pull rely on: a chunk that was stored successfully
		// stays stored, whatever happens to Puts of other ranges
		for i := range covered {
			if covered[i] && (i < start || i > end) {
				verifAssert(vfDisk.exists && vfDisk.size > i && vfDisk.data[i] == vfWant[i], "successfully-stored-chunk-stays-in-the-file")
			}
		}
		if perr == nil {
			for i := start; i <= end; i++ {
				covered[i] = true
			}
		}
	}
	all := true
	for _, cv := range covered {
		if !cv {
			all = false
		}
	}
	verifReach("chunks-written")
	_ = all
	vfInvariant("end")
}

type vfBytes struct {
	b   []byte
	pos int
}

func (r *vfBytes) Read(p []byte) (int, error) {
	if r.pos >= len(r.b) {
		return 0, io.EOF
	}
	n := copy(p, r.b[r.pos:])
	r.pos += n
	return n, nil
}


// VerifC08Concurrent: two concurrent Puts of the same digest, one from a correct source and one from
// an arbitrary source; file-system calls of the two interleave within the delay bound.
func VerifC08Concurrent(size int) {
	d := vfSetup(size, -1, 0)
	vfConcurrent = true
	c := &DiskCache{dir: "/cache", now: time.Now}
	good := make([]byte, size)
	copy(good, vfWant)
	done := make(chan error, 2)
	var goodErr error
	go func() {
		goodErr = c.Put(d, &vfBytes{b: good}, int64(size))
		done <- goodErr
	}()
	go func() {
		done <- c.Put(d, &vfSource{maxReads: 3, maxChunk: 2}, int64(size))
	}()
	<-done
	<-done
	verifReach("both-returned")
	vfInvariant("after-both")
	if goodErr == nil {
		// a successful store stays retrievable
		_, gerr := c.Get(d)
		verifAssert(gerr == nil, "successful-store-stays-retrievable@concurrent-writers")
	}
}

// VerifC08ConcurrentGood: two concurrent Puts of the same digest, BOTH from correct sources (two pulls
// that need the same blob). Whatever the interleaving of their file-system calls, both succeed and the
// file has the right content - no known-finding class applies here.
func VerifC08ConcurrentGood(size int) {
	d := vfSetup(size, -1, 0)
	c := &DiskCache{dir: "/cache", now: time.Now}
	done := make(chan error, 2)
	for w := 0; w < 2; w++ {
		go func() {
			good := make([]byte, size)
			copy(good, vfWant)
			// the bytes arrive in pieces, so that the other writer can open the file in between
			err := c.Put(d, &vfPieces{b: good}, int64(size))
			if err == nil {
				// at the moment a Put reports success the blob is there, complete and right
				verifAssert(vfDisk.exists && vfDisk.size == len(vfWant), "blob-stored-at-full-size-when-put-returns")
				vfInvariant("when-a-put-returns")
			}
			done <- err
		}()
	}
	e1 := <-done
	e2 := <-done
	verifReach("both-returned")
	verifAssert(e1 == nil && e2 == nil, "puts-of-correct-bytes-succeed")
	vfInvariant("after-two-good-writers")
	_, gerr := c.Get(d)
	verifAssert(gerr == nil, "successful-store-stays-retrievable")
	verifAssert(vfDisk.exists && vfDisk.size == len(vfWant), "blob-stored-at-full-size")
}

type vfPieces struct {
	b   []byte
	pos int
}

func (r *vfPieces) Read(p []byte) (int, error) {
	if r.pos >= len(r.b) {
		return 0, io.EOF
	}
	p[0] = r.b[r.pos]
	r.pos++
	return 1, nil
}
