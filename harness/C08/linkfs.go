package blob

import (
	"io"
	"io/fs"
	"os"
	"time"
)

// C08, names: the real Link / Unlink / Resolve / Get / Put (and copyNamedFile, checkWriter, readAndSum,
// manifestPath, nameToPath under them) over a MODEL FILE SYSTEM of several files whose contents are
// symbolic bytes. No faults and no crash points here (those are the subject of VerifC08Put): this harness
// is about histories. Ghost state: the digest the name was last linked to.

type vlFile struct {
	exists bool
	data   []byte
}

type vlHandle struct {
	file *vlFile
	pos  int
	open bool
}

var (
	vlFS      map[string]*vlFile
	vlHandles map[*os.File]*vlHandle
	vlDigests []Digest
	vlBlobs   [][]byte
)

func vlGet(name string) *vlFile {
	f := vlFS[name]
	if f == nil {
		f = &vlFile{}
		vlFS[name] = f
	}
	return f
}

func vlStat(name string) (os.FileInfo, error) {
	f := vlGet(name)
	if !f.exists {
		return nil, fs.ErrNotExist
	}
	return vfInfo{int64(len(f.data))}, nil
}

func vlOpenFile(name string, flag int, perm os.FileMode) (*os.File, error) {
	f := vlGet(name)
	if !f.exists {
		if flag&os.O_CREATE == 0 {
			return nil, fs.ErrNotExist
		}
		f.exists, f.data = true, nil
	}
	if flag&os.O_TRUNC != 0 {
		f.data = nil
	}
	h := new(os.File)
	vlHandles[h] = &vlHandle{file: f, open: true}
	return h, nil
}

func vlOpen(name string) (*os.File, error) { return vlOpenFile(name, os.O_RDONLY, 0) }

func vlRead(h *os.File, p []byte) (int, error) {
	s := vlHandles[h]
	if s == nil || !s.open {
		return 0, os.ErrClosed
	}
	if s.pos >= len(s.file.data) {
		return 0, io.EOF
	}
	n := copy(p, s.file.data[s.pos:])
	s.pos += n
	return n, nil
}

// (*os.File).WriteTo (what io.Copy uses for a file source): plain read/write loop
func vlWriteTo(h *os.File, w io.Writer) (int64, error) {
	var total int64
	buf := make([]byte, 4)
	for {
		n, err := vlRead(h, buf)
		if n > 0 {
			m, werr := w.Write(buf[:n])
			total += int64(m)
			if werr != nil {
				return total, werr
			}
		}
		if err == io.EOF {
			return total, nil
		}
		if err != nil {
			return total, err
		}
	}
}

func vlWrite(h *os.File, p []byte) (int, error) {
	s := vlHandles[h]
	if s == nil || !s.open {
		return 0, os.ErrClosed
	}
	for i := range p {
		at := s.pos + i
		if at < len(s.file.data) {
			s.file.data[at] = p[i]
		} else {
			s.file.data = append(s.file.data, p[i])
		}
	}
	s.pos += len(p)
	return len(p), nil
}

func vlTruncate(h *os.File, size int64) error {
	s := vlHandles[h]
	if int(size) < len(s.file.data) {
		s.file.data = s.file.data[:size]
	}
	return nil
}

func vlClose(h *os.File) error {
	s := vlHandles[h]
	if s == nil || !s.open {
		return os.ErrClosed
	}
	s.open = false
	return nil
}

func vlFileStat(h *os.File) (os.FileInfo, error) {
	return vfInfo{int64(len(vlHandles[h].file.data))}, nil
}

func vlRemove(name string) error {
	f := vlGet(name)
	if !f.exists {
		return fs.ErrNotExist
	}
	f.exists, f.data = false, nil
	return nil
}

func vlMkdirAll(path string, perm os.FileMode) error { return nil }
func vlChtimes(name string, a, m time.Time) error    { return nil }

// the blob file of a digest: the digests of the scenario are told apart by comparison (the real GetFile
// prints the hash in hex, which would make the path a symbolic string)
func vlGetFile(c *DiskCache, d Digest) string {
	for i, k := range vlDigests {
		if d == k {
			return "/cache/blobs/" + string("0123456789"[i])
		}
	}
	return "/cache/blobs/other"
}

const vlManifest = "/cache/manifests/h/n/m/t"

// the spellings of the scenario's name (the second one only in the case-variant history)
var vlSpellings = []string{"h/n/m:t", "H/n/M:t"}
var vlSpellingPaths = []string{"manifests/h/n/m/t", "manifests/H/n/M/t"}

// the manifests directory holds the links of the scenario that exist, in lexical order
func vlLinks(c *DiskCache) func(yield func(string, error) bool) {
	return func(yield func(string, error) bool) {
		for _, i := range []int{1, 0} { // "manifests/H..." sorts before "manifests/h..."
			if vlGet("/cache/" + vlSpellingPaths[i]).exists {
				if !yield(vlSpellingPaths[i], nil) {
					return
				}
			}
		}
	}
}

// VerifC08Link: nBlobs manifest blobs of the given size with arbitrary, pairwise different contents; a
// history of nOps operations (Put blob k, Link name->k, Unlink, Resolve) chosen by the solver.
func VerifC08Link(nBlobs int, size int, nOps int) { vlLinkHistory(nBlobs, size, nOps, false) }

// VerifC08LinkCase: the same history, every operation spelling the name in either of two letter cases;
// the ghost state knows one model (names differing only in letter case address the same model), and at
// most one link file may exist for it.
func VerifC08LinkCase(nBlobs int, size int, nOps int) { vlLinkHistory(nBlobs, size, nOps, true) }

func vlLinkHistory(nBlobs int, size int, nOps int, caseVariants bool) {
	vlFS, vlHandles = map[string]*vlFile{}, map[*os.File]*vlHandle{}
	vlDigests, vlBlobs = nil, nil
	for k := 0; k < nBlobs; k++ {
		b := make([]byte, size)
		for i := range b {
			b[i] = verifNondetU8("manifest")
		}
		for _, o := range vlBlobs {
			same := true
			for i := range b {
				if o[i] != b[i] {
					same = false
				}
			}
			verifAssume(!same)
		}
		vlBlobs = append(vlBlobs, b)
		vlDigests = append(vlDigests, Digest{sum: vfSum(b)})
	}
	c := &DiskCache{dir: "/cache", now: time.Now}
	name := vlSpellings[0]
	linked := -1 // ghost: index of the blob the name was last linked to
	stored := make([]bool, nBlobs)
	for op := 0; op < nOps; op++ {
		if caseVariants {
			name = vlSpellings[verifChoice(2)]
			n := 0
			for _, p := range vlSpellingPaths {
				if vlGet("/cache/" + p).exists {
					n++
				}
			}
			verifAssert(n <= 1, "one-link-file-per-model-whatever-the-spelling")
		}
		switch verifChoice(5) {
		case 4: // a Put of blob k whose source delivers other bytes of the same length
			k := verifChoice(nBlobs)
			err := PutBytes(c, vlDigests[k], vlBlobs[(k+1)%nBlobs])
			if stored[k] {
				verifAssert(err == nil, "put-for-a-stored-blob-is-a-no-op")
			} else {
				verifAssert(err != nil, "put-of-wrong-bytes-fails")
			}
		case 0: // store blob k
			k := verifChoice(nBlobs)
			err := PutBytes(c, vlDigests[k], vlBlobs[k])
			verifAssert(err == nil, "put-of-correct-bytes-succeeds")
			stored[k] = true
		case 1: // link the name to blob k
			k := verifChoice(nBlobs)
			err := c.Link(name, vlDigests[k])
			if !stored[k] {
				verifAssert(err != nil, "link-to-an-absent-blob-is-refused")
			} else {
				verifAssert(err == nil, "link-to-a-stored-blob-succeeds")
			}
			if err == nil {
				linked = k
			}
		case 2:
			ok, err := c.Unlink(name)
			verifAssert(err == nil, "unlink-no-error")
			verifAssert(ok == (linked >= 0), "unlink-reports-whether-a-link-existed")
			linked = -1
		case 3:
			d, err := c.Resolve(name)
			verifReach("resolved")
			if linked < 0 {
				verifAssert(err != nil, "unlinked-name-does-not-resolve")
			} else {
				verifAssert(err == nil, "linked-name-resolves")
				if err == nil {
					verifAssert(d == vlDigests[linked], "name-resolves-to-the-digest-last-linked")
					e, gerr := c.Get(d)
					verifAssert(gerr == nil && e.Size == int64(size), "resolved-manifest-is-retrievable")
				}
			}
		}
	}
}

// ---- Import: temp file, hash while copying, rename into place ----

var vlTempSeq int
var vlNames map[*os.File]string

func vlCreateTemp(dir, pattern string) (*os.File, error) {
	vlTempSeq++
	name := "/tmp/" + pattern + string("0123456789"[vlTempSeq%10])
	h, err := vlOpenFile(name, os.O_RDWR|os.O_CREATE|os.O_TRUNC, 0o600)
	if err == nil {
		if vlNames == nil {
			vlNames = map[*os.File]string{}
		}
		vlNames[h] = name
	}
	return h, err
}

func vlFileName(h *os.File) string { return vlNames[h] }

func vlRename(oldpath, newpath string) error {
	src := vlGet(oldpath)
	if !src.exists {
		return fs.ErrNotExist
	}
	dst := vlGet(newpath)
	dst.exists, dst.data = true, src.data
	src.exists, src.data = false, nil
	return nil
}

func vlReadFrom(h *os.File, r io.Reader) (int64, error) {
	var total int64
	buf := make([]byte, 4)
	for {
		n, err := r.Read(buf)
		if n > 0 {
			if _, werr := vlWrite(h, buf[:n]); werr != nil {
				return total, werr
			}
			total += int64(n)
		}
		if err == io.EOF {
			return total, nil
		}
		if err != nil {
			return total, err
		}
	}
}

type vlBytesReader struct {
	b   []byte
	pos int
}

func (r *vlBytesReader) Read(p []byte) (int, error) {
	if r.pos >= len(r.b) {
		return 0, io.EOF
	}
	n := copy(p, r.b[r.pos:])
	r.pos += n
	return n, nil
}

// VerifC08Import: a blob of size arbitrary bytes is imported into a cache in which its file is absent,
// is the zero-length / partial leftover of a Put that failed, or is already complete.
func VerifC08Import(size int) {
	vlFS, vlHandles, vlNames = map[string]*vlFile{}, map[*os.File]*vlHandle{}, map[*os.File]string{}
	vlDigests, vlBlobs = nil, nil
	b := make([]byte, size)
	for i := range b {
		b[i] = verifNondetU8("blob")
	}
	d := Digest{sum: vfSum(b)}
	vlBlobs, vlDigests = append(vlBlobs, b), append(vlDigests, d)
	c := &DiskCache{dir: "/cache", now: time.Now}
	switch verifChoice(3) {
	case 1: // a Put whose source delivered other bytes of the same length has failed before
		bad := make([]byte, size)
		for i := range bad {
			bad[i] = verifNondetU8("bad")
		}
		same := true
		for i := range bad {
			if bad[i] != b[i] {
				same = false
			}
		}
		verifAssume(!same)
		err := PutBytes(c, d, bad)
		verifAssert(err != nil, "put-of-wrong-bytes-fails")
		verifReach("leftover-of-a-failed-put")
	case 2:
		verifAssert(PutBytes(c, d, b) == nil, "put-of-correct-bytes-succeeds")
	}
	got, err := c.Import(&vlBytesReader{b: append([]byte(nil), b...)}, int64(size))
	verifReach("imported")
	verifAssert(err == nil, "import-of-correct-bytes-succeeds")
	if err != nil {
		return
	}
	verifAssert(got == d, "import-returns-the-content's-digest")
	e, gerr := c.Get(d)
	verifAssert(gerr == nil && e.Size == int64(size), "successful-import-is-retrievable")
	f := vlGet(vlGetFile(c, d))
	ok := f.exists && len(f.data) == size
	for i := 0; ok && i < size; i++ {
		ok = f.data[i] == b[i]
	}
	verifAssert(ok, "imported-blob-has-the-imported-content")
}
