package blob

import (
	"io"
	"io/fs"
	"os"
	"time"
)

// C08, names: the real Link / Unlink / Resolve / Get / Put (and copyNamedFile, checkWriter, readAndSum,
// manifestPath, nameToPath under them) over a MODEL FILE SYSTEM of several files whose contents are
// symbolic bytes. No faults and no crash points here (those are the subject of VerifC08Put): this harness
// is about histories. Ghost state: the digest the name was last linked to.

type vlFile struct {
	exists bool
	data   []byte
}

type vlHandle struct {
	file *vlFile
	pos  int
	open bool
}

var (
	vlFS      map[string]*vlFile
	vlHandles map[*os.File]*vlHandle
	vlDigests []Digest
	vlBlobs   [][]byte
)

func vlGet(name string) *vlFile {
	f := vlFS[name]
	if f == nil {
		f = &vlFile{}
		vlFS[name] = f
	}
	return f
}

func vlStat(name string) (os.FileInfo, error) {
	f := vlGet(name)
	if !f.exists {
		return nil, fs.ErrNotExist
	}
	return vfInfo{int64(len(f.data))}, nil
}

func vlOpenFile(name string, flag int, perm os.FileMode) (*os.File, error) {
	f := vlGet(name)
	if !f.exists {
		if flag&os.O_CREATE == 0 {
			return nil, fs.ErrNotExist
		}
		f.exists, f.data = true, nil
	}
	if flag&os.O_TRUNC != 0 {
		f.data = nil
	}
	h := new(os.File)
	vlHandles[h] = &vlHandle{file: f, open: true}
	return h, nil
}

func vlOpen(name string) (*os.File, error) { return vlOpenFile(name, os.O_RDONLY, 0) }

func vlRead(h *os.File, p []byte) (int, error) {
	s := vlHandles[h]
	if s == nil || !s.open {
		return 0, os.ErrClosed
	}
	if s.pos >= len(s.file.data) {
		return 0, io.EOF
	}
	n := copy(p, s.file.data[s.pos:])
	s.pos += n
	return n, nil
}

// (*os.File).WriteTo (what io.Copy uses for a file source): plain read/write loop
func vlWriteTo(h *os.File, w io.Writer) (int64, error) {
	var total int64
	buf := make([]byte, 4)
	for {
		n, err := vlRead(h, buf)
		if n > 0 {
			m, werr := w.Write(buf[:n])
			total += int64(m)
			if werr != nil {
				return total, werr
			}
		}
		if err == io.EOF {
			return total, nil
		}
		if err != nil {
			return total, err
		}
	}
}

func vlWrite(h *os.File, p []byte) (int, error) {
	s := vlHandles[h]
	if s == nil || !s.open {
		return 0, os.ErrClosed
	}
	for i := range p {
		at := s.pos + i
		if at < len(s.file.data) {
			s.file.data[at] = p[i]
		} else {
			s.file.data = append(s.file.data, p[i])
		}
	}
	s.pos += len(p)
	return len(p), nil
}

func vlTruncate(h *os.File, size int64) error {
	s := vlHandles[h]
	if int(size) < len(s.file.data) {
		s.file.data = s.file.data[:size]
	}
	return nil
}

func vlClose(h *os.File) error {
	s := vlHandles[h]
	if s == nil || !s.open {
		return os.ErrClosed
	}
	s.open = false
	return nil
}

func vlFileStat(h *os.File) (os.FileInfo, error) {
	return vfInfo{int64(len(vlHandles[h].file.data))}, nil
}

func vlRemove(name string) error {
	f := vlGet(name)
	if !f.exists {
		return fs.ErrNotExist
	}
	f.exists, f.data = false, nil
	return nil
}

func vlMkdirAll(path string, perm os.FileMode) error { return nil }
func vlChtimes(name string, a, m time.Time) error    { return nil }

// the blob file of a digest: the digests of the scenario are told apart by comparison (the real GetFile
// prints the hash in hex, which would make the path a symbolic string)
func vlGetFile(c *DiskCache, d Digest) string {
	for i, k := range vlDigests {
		if d == k {
			return "/cache/blobs/" + string("0123456789"[i])
		}
	}
	return "/cache/blobs/other"
}

const vlManifest = "/cache/manifests/h/n/m/t"

// the spellings of the scenario's name (the second one only in the case-variant history)
var vlSpellings = []string{"h/n/m:t", "H/n/M:t"}
var vlSpellingPaths = []string{"manifests/h/n/m/t", "manifests/H/n/M/t"}

// the manifests directory holds the links of the scenario that exist, in lexical order
func vlLinks(c *DiskCache) func(yield func(string, error) bool) {
	return func(yield func(string, error) bool) {
		for _, i := range []int{1, 0} { // "manifests/H..." sorts before "manifests/h..."
			if vlGet("/cache/" + vlSpellingPaths[i]).exists {
				if !yield(vlSpellingPaths[i], nil) {
					return
				}
			}
		}
	}
}

// VerifC08Link: nBlobs manifest blobs of the given size with arbitrary, pairwise different contents; a
// history of nOps operations (Put blob k, Link name->k, Unlink, Resolve) chosen by the solver.
func VerifC08Link(nBlobs int, size int, nOps int) { vlLinkHistory(nBlobs, size, nOps, false) }

// VerifC08LinkCase: the same history, every operation spelling the name in either of two letter cases;
// the ghost state knows one model (names differing only in letter case address the same model), and at
// most one link file may exist for it.
func VerifC08LinkCase(nBlobs int, size int, nOps int) { vlLinkHistory(nBlobs, size, nOps, true) }

func vlLinkHistory(nBlobs int, size int, nOps int, caseVariants bool) {
	vlFS, vlHandles = map[string]*vlFile{}, map[*os.File]*vlHandle{}
	vlDigests, vlBlobs = nil, nil
	for k := 0; k < nBlobs; k++ {
		b := make([]byte, size)
		for i := range b {
			b[i] = verifNondetU8("manifest")
		}
		for _, o := range vlBlobs {
			same := true
			for i := range b {
				if o[i] != b[i] {
					same = false
				}
			}
			verifAssume(!same)
		}
		vlBlobs = append(vlBlobs, b)
		vlDigests = append(vlDigests, Digest{sum: vfSum(b)})
	}
	c := &DiskCache{dir: "/cache", now: time.Now}
	name := vlSpellings[0]
	linked := -1 // ghost: index of the blob the name was last linked to
	stored := make([]bool, nBlobs)
	for op := 0; op < nOps; op++ {
		if caseVariants {
			name = vlSpellings[verifChoice(2)]
			n := 0
			for _, p := range vlSpellingPaths {
				if vlGet("/cache/" + p).exists {
					n++
				}
			}
			verifAssert(n <= 1, "one-link-file-per-model-whatever-the-spelling")
		}
		switch verifChoice(5) {
		case 4: // a Put of blob k whose source delivers other bytes of the same length
			k := verifChoice(nBlobs)
			err := PutBytes(c, vlDigests[k], vlBlobs[(k+1)%nBlobs])
			if stored[k] {
				verifAssert(err == nil, "put-for-a-stored-blob-is-a-no-op")
			} else {
				verifAssert(err != nil, "put-of-wrong-bytes-fails")
			}
		case 0: // store blob k
			k := verifChoice(nBlobs)
			err := PutBytes(c, vlDigests[k], vlBlobs[k])
			verifAssert(err == nil, "put-of-correct-bytes-succeeds")
			stored[k] = true
		case 1: // link the name to blob k
			k := verifChoice(nBlobs)
			err := c.Link(name, vlDigests[k])
			if !stored[k] {
				verifAssert(err != nil, "link-to-an-absent-blob-is-refused")
			} else {
				verifAssert(err == nil, "link-to-a-stored-blob-succeeds")
			}
			if err == nil {
				linked = k
			}
		case 2:
			ok, err := c.Unlink(name)
			verifAssert(err == nil, "unlink-no-error")
			verifAssert(ok == (linked >= 0), "unlink-reports-whether-a-link-existed")
			linked = -1
		case 3:
			d, err := c.Resolve(name)
			verifReach("resolved")
			if linked < 0 {
				verifAssert(err != nil, "unlinked-name-does-not-resolve")
			} else {
				verifAssert(err == nil, "linked-name-resolves")
				if err == nil {
					verifAssert(d == vlDigests[linked], "name-resolves-to-the-digest-last-linked")
					e, gerr := c.Get(d)
					verifAssert(gerr == nil && e.Size == int64(size), "resolved-manifest-is-retrievable")
				}
			}
		}
	}
}
