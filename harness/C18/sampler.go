package sample

import "math"

// C18 (exact-compare part): only float comparisons and moves are involved, so IEEE-754
// semantics are exact in the solver. Logits are arbitrary float32 bit patterns except NaN.

func vfLogits(n int) []float32 {
	ls := make([]float32, n)
	for i := range ls {
		ls[i] = verifNondetF32("logit")
		verifAssume(ls[i] == ls[i]) // not NaN
	}
	return ls
}

// temperature 0: a highest-logit token inside the vocabulary, not -Inf when some logit is finite
func VerifC18Greedy(n int) {
	logits := vfLogits(n)
	orig := make([]float32, n)
	copy(orig, logits)
	s := NewSampler(0, verifNondetInt("topK"), verifNondetF32("topP"), verifNondetF32("minP"), -1, nil)
	tok, err := s.Sample(logits)
	verifReach("sampled")
	verifAssert(err == nil, "no-error")
	verifAssert(tok >= 0 && int(tok) < n, "token-inside-vocabulary")
	if tok >= 0 && int(tok) < n {
		someFinite := false
		for i := range orig {
			verifAssert(!(orig[i] > orig[tok]), "token-has-a-highest-logit")
			if !math.IsInf(float64(orig[i]), -1) {
				someFinite = true
			}
		}
		if someFinite {
			verifAssert(!math.IsInf(float64(orig[tok]), -1), "token-is-not-minus-infinity")
		}
	}
}

// topK: a sorted selection of the min(k,n) largest tokens
func VerifC18TopK(n int) {
	logits := vfLogits(n)
	k := verifNondetInt("k")
	verifAssume(k >= -1 && k <= n+1)
	ts := make([]token, n)
	for i := range ts {
		ts[i] = token{id: int32(i), value: logits[i]}
	}
	res := topK(ts, k)
	verifReach("selected")
	want := k
	if k <= 0 || k >= n {
		want = n
	}
	verifAssert(len(res) == want, "topk-size")
	seen := make([]bool, n)
	for i, t := range res {
		okID := t.id >= 0 && int(t.id) < n
		verifAssert(okID, "topk-id-inside-vocabulary")
		if okID {
			verifAssert(!seen[t.id], "topk-no-duplicate")
			seen[t.id] = true
			verifAssert(t.value == logits[t.id], "topk-keeps-the-logit")
		}
		if i > 0 {
			verifAssert(!(res[i].value > res[i-1].value), "topk-sorted-descending")
		}
	}
	for i := 0; i < n; i++ {
		if !seen[i] {
			for _, t := range res {
				verifAssert(!(logits[i] > t.value), "topk-dropped-token-not-larger-than-a-kept-one")
			}
		}
	}
}

// NewSampler clamps its parameters and installs a seeded generator iff seed != -1
func VerifC18NewSampler() {
	temp, topP, minP := verifNondetF32("temperature"), verifNondetF32("topP"), verifNondetF32("minP")
	verifAssume(temp == temp && topP == topP && minP == minP)
	seed := verifNondetInt("seed")
	s := NewSampler(temp, verifNondetInt("topK"), topP, minP, seed, nil)
	verifReach("constructed")
	verifAssert(s.temperature >= 0, "temperature-clamped")
	verifAssert(s.topP >= 0 && s.topP <= 1, "topP-clamped")
	verifAssert(s.minP >= 0 && s.minP <= 1, "minP-clamped")
	verifAssert((s.rng != nil) == (seed != -1), "seeded-generator-iff-seed-given")
}

// ---- temperature > 0: lemma-abstracted arithmetic (see engine/absfloat.go) ----

// replacement for (*rand.Rand).Float32 / rand.Float32: an arbitrary draw in [0,1)
func vfDraw() float32 {
	r := verifNondetF32("draw")
	verifAssume(r >= 0 && r < 1)
	return r
}

// pure helper (merged into one term)
func vfInRange(l float32) bool { return l >= -1000 && l <= 1000 }

func vfGreater(ls []float32, x float32) int {
	n := 0
	for _, l := range ls {
		if l > x {
			n++
		}
	}
	return n
}

// VerifC18Sample: the probabilistic path. Logits finite or -Inf with at least one finite value;
// temperature > 0; every top-k, top-p, min-p; arbitrary draw. Decided: no panic, a token inside the
// vocabulary, never a -Inf logit, inside the top-k set, and an error only for a NaN sum.
func vfDrawLogits(n int) []float32 {
	logits := make([]float32, n)
	someFinite := false
	for i := range logits {
		l := verifNondetF32("logit")
		if math.IsInf(float64(l), -1) {
			// -Inf: a token the model (or a grammar) has ruled out
		} else {
			verifAssume(vfInRange(l)) // finite logits in [-1000, 1000] (stated bound)
			someFinite = true
		}
		logits[i] = l
	}
	verifAssume(someFinite)
	return logits
}

func vfCheckSample(s *Sampler, logits []float32, k int) {
	n := len(logits)
	orig := make([]float32, n)
	copy(orig, logits)
	tok, err := s.Sample(logits)
	verifReach("sampled")
	if err != nil {
		return
	}
	verifReach("token-returned")
	ok := tok >= 0 && int(tok) < n
	verifAssert(ok, "token-inside-vocabulary")
	if ok {
		verifAssert(!math.IsInf(float64(orig[tok]), -1), "token-is-not-minus-infinity")
		if k >= 1 && k < n {
			verifAssert(vfGreater(orig, orig[tok]) < k, "token-is-inside-the-top-k")
		}
	}
}

func vfArbSampler(n int) (*Sampler, int) {
	var s Sampler
	temp := verifNondetF32("temperature")
	verifAssume(temp > 0 && temp <= 100)
	k := verifNondetInt("topK")
	verifAssume(k >= -1 && k <= n+1)
	topP, minP := verifNondetF32("topP"), verifNondetF32("minP")
	verifAssume(topP == topP && minP == minP)
	s = NewSampler(temp, k, topP, minP, -1, nil)
	return &s, k
}

func VerifC18Sample(n int) {
	logits := vfDrawLogits(n)
	s, k := vfArbSampler(n)
	vfCheckSample(s, logits, k)
}

// VerifC18SampleTwice: two consecutive calls on ONE sampler (a sampler lives for a whole generation): the
// second call is held to the same standard as the first, whatever the first one left behind.
func VerifC18SampleTwice(n int, concreteFirst int) {
	var l1 []float32
	var s *Sampler
	var k int
	if concreteFirst != 0 {
		// targeted shape: the first call sees ascending logits 1..n (sorting them permutes the token
		// order) on a sampler with temperature 1 and top-p / min-p switched off; top-k is arbitrary
		for i := 0; i < n; i++ {
			l1 = append(l1, float32(i+1))
		}
		k = verifNondetInt("topK")
		verifAssume(k >= -1 && k <= n+1)
		sm := NewSampler(1, k, 1, 0, -1, nil)
		s = &sm
	} else {
		l1 = vfDrawLogits(n)
		s, k = vfArbSampler(n)
	}
	l2 := vfDrawLogits(n)
	if _, err := s.Sample(l1); err != nil {
		return
	}
	verifReach("first-call-done")
	vfCheckSample(s, l2, k)
}
