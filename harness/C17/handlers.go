package server

import (
	"context"
	"errors"
	"io"
	"net/http"

	"github.com/gin-gonic/gin"

	"github.com/ollama/ollama/api"
	"github.com/ollama/ollama/llm"
	"github.com/ollama/ollama/template"
	"github.com/ollama/ollama/types/model"
)

// C17: the real GenerateHandler / ChatHandler (producer goroutine, per-request channel, non-stream
// aggregation, streaming-with-tools buffer) driven twice with the SAME scripted model output - once
// with stream=false, once streaming - and compared. The runner is a script: k pieces of solver-chosen
// text, the last one marked done with a solver-chosen reason and token counts, or a failure after a
// solver-chosen number of pieces. Request binding, model lookup, scheduling, prompt rendering and the
// HTTP writers are stubs that record what the handler hands them.

type vfPiece struct {
	content string
}

var (
	vfScript    []vfPiece
	vfFailAfter int // -1: no failure; j: Completion returns an error after j pieces (before the done piece)
	vfReason    llm.DoneReason
	vfPromptN   int
	vfEvalN     int
	vfTokFail   bool

	vfGenReq  api.GenerateRequest
	vfChatReq api.ChatRequest

	vfJSON     []vfJSONCall // c.JSON / AbortWithStatusJSON calls
	vfStreamed []any        // what streamResponse was given, in order
	vfModel    *Model
)

type vfJSONCall struct {
	code int
	obj  any
}

type vfRunner struct{}

func (vfRunner) Ping(ctx context.Context) error             { return nil }
func (vfRunner) WaitUntilRunning(ctx context.Context) error { return nil }
func (vfRunner) Completion(ctx context.Context, req llm.CompletionRequest, fn func(llm.CompletionResponse)) error {
	for i, p := range vfScript {
		if i == vfFailAfter {
			return errors.New("runner failed")
		}
		last := i == len(vfScript)-1
		r := llm.CompletionResponse{Content: p.content, Done: last}
		if last {
			r.DoneReason, r.PromptEvalCount, r.EvalCount = vfReason, vfPromptN, vfEvalN
		}
		fn(r)
	}
	return nil
}
func (vfRunner) Embedding(ctx context.Context, input string) ([]float32, error) { return nil, nil }
func (vfRunner) Tokenize(ctx context.Context, content string) ([]int, error) {
	if vfTokFail {
		return nil, errors.New("tokenize failed")
	}
	return []int{len(content)}, nil
}
func (vfRunner) Detokenize(ctx context.Context, tokens []int) (string, error) { return "", nil }
func (vfRunner) Close() error                                               { return nil }
func (vfRunner) EstimatedVRAM() uint64                                      { return 0 }
func (vfRunner) EstimatedTotal() uint64                                     { return 0 }
func (vfRunner) EstimatedVRAMByGPU(gpuID string) uint64                     { return 0 }

func vfBind17(c *gin.Context, obj any) error {
	switch r := obj.(type) {
	case *api.GenerateRequest:
		*r = vfGenReq
	case *api.ChatRequest:
		*r = vfChatReq
	}
	return nil
}
func vfJSON17(c *gin.Context, code int, obj any)  { vfJSON = append(vfJSON, vfJSONCall{code, obj}) }
func vfAbort17(c *gin.Context, code int, obj any) { vfJSON = append(vfJSON, vfJSONCall{code, obj}) }
func vfStream17(c *gin.Context, ch chan any) {
	for v := range ch {
		vfStreamed = append(vfStreamed, v)
	}
}
func vfExisting17(n model.Name) (model.Name, error) { return n, nil }
func vfGetModel17(name string) (*Model, error)       { return vfModel, nil }
func vfSchedule17(s *Server, ctx context.Context, name string, caps []model.Capability, requestOpts map[string]any, keepAlive *api.Duration) (llm.LlamaServer, *Model, *api.Options, error) {
	o := api.DefaultOptions()
	return vfRunner{}, vfModel, &o, nil
}
func vfChatPrompt17(ctx context.Context, m *Model, tokenize tokenizeFunc, opts *api.Options, msgs []api.Message, tools []api.Tool) (string, []llm.ImageData, error) {
	return "prompt", nil, nil
}
func vfExecute17(t *template.Template, w io.Writer, v template.Values) error {
	io.WriteString(w, "rendered")
	return nil
}

// Toy tool-call recogniser standing in for (*Model).parseToolCalls (text/template + encoding/json):
// like the real one it finds every COMPLETE object anywhere in the text and ignores the rest; an
// object is '{' + one lower-case letter (the function name) + '}'.
func vfParseToolCalls17(m *Model, s string) ([]api.ToolCall, bool) {
	var calls []api.ToolCall
	for i := 0; i+2 < len(s); i++ {
		if s[i] == '{' && s[i+1] >= 'a' && s[i+1] <= 'z' && s[i+2] == '}' {
			calls = append(calls, api.ToolCall{Function: api.ToolCallFunction{Name: s[i+1 : i+2]}})
			i += 2
		}
	}
	return calls, len(calls) > 0
}

func vfArbScript(k, maxPiece int, mayFail bool) string {
	vfScript = nil
	whole := ""
	for i := 0; i < k; i++ {
		p := verifNondetString("piece", maxPiece)
		vfScript = append(vfScript, vfPiece{p})
		whole += p
	}
	vfFailAfter = -1
	vfTokFail = false
	if mayFail {
		vfFailAfter = verifChoice(k+1) - 1
		vfTokFail = verifChoice(2) == 1
	}
	vfReason = llm.DoneReason(verifChoice(3))
	vfPromptN = int(verifNondetU16("prompt-tokens"))
	vfEvalN = int(verifNondetU16("eval-tokens"))
	return whole
}

func vfBoolPtr(b bool) *bool { return &b }

func vfErrOf(v any) (string, bool) {
	h, ok := v.(gin.H)
	if !ok {
		return "", false
	}
	s, ok := h["error"].(string)
	return s, ok
}

// VerifC17Generate: k pieces of up to maxPiece bytes; raw and template-rendered prompts.
func VerifC17Generate(k, maxPiece, mayFail int) {
	vfModel = &Model{Template: &template.Template{}}
	whole := vfArbScript(k, maxPiece, mayFail != 0)
	raw := verifChoice(2) == 1
	s := &Server{}

	// non-streamed
	vfJSON, vfStreamed = nil, nil
	vfGenReq = api.GenerateRequest{Model: "h/n/m:t", Prompt: "p", Raw: raw, Stream: vfBoolPtr(false)}
	s.GenerateHandler(&gin.Context{Request: &http.Request{}})
	verifQuiesce()
	nonStream := vfJSON
	verifAssert(len(vfStreamed) == 0, "non-stream-request-is-not-streamed")
	verifAssert(len(nonStream) == 1, "non-stream-writes-exactly-one-response")

	// streamed (stream unset = streaming)
	vfJSON, vfStreamed = nil, nil
	vfGenReq = api.GenerateRequest{Model: "h/n/m:t", Prompt: "p", Raw: raw}
	s.GenerateHandler(&gin.Context{Request: &http.Request{}})
	verifQuiesce()
	streamed := vfStreamed
	verifAssert(len(vfJSON) == 0, "stream-request-writes-no-single-response")
	verifReach("both-ran")

	failed := vfFailAfter >= 0 || (vfTokFail && !raw)
	// the stream: zero or more partial responses, then exactly one final message or one error
	cat, finals, errs := "", 0, 0
	var final api.GenerateResponse
	for i, v := range streamed {
		switch r := v.(type) {
		case api.GenerateResponse:
			cat += r.Response
			if r.Done {
				finals++
				final = r
				verifAssert(i == len(streamed)-1, "final-message-is-last")
			}
		default:
			_, isErr := vfErrOf(v)
			verifAssert(isErr, "stream-item-is-response-or-error")
			errs++
			verifAssert(i == len(streamed)-1, "error-is-last")
		}
	}
	verifAssert(finals+errs == 1, "stream-ends-with-exactly-one-final-message-or-one-error")
	verifAssert((errs == 1) == failed, "stream-reports-an-error-iff-the-runner-failed")
	if len(nonStream) != 1 {
		return
	}
	if failed {
		_, isErr := vfErrOf(nonStream[0].obj)
		verifAssert(isErr && nonStream[0].code == http.StatusInternalServerError, "non-stream-reports-the-failure")
		return
	}
	verifReach("success")
	r, ok := nonStream[0].obj.(api.GenerateResponse)
	verifAssert(ok && nonStream[0].code == http.StatusOK, "non-stream-success-is-a-generate-response")
	if !ok {
		return
	}
	verifAssert(cat == whole, "streamed-pieces-concatenate-to-the-model-output")
	verifAssert(r.Response == whole, "non-stream-text-is-the-model-output")
	verifAssert(r.Response == cat, "non-stream-text-equals-concatenated-stream")
	verifAssert(r.Done && final.Done, "both-end-done")
	verifAssert(r.DoneReason == final.DoneReason && r.DoneReason == vfReason.String(), "same-finish-reason")
	verifAssert(r.PromptEvalCount == final.PromptEvalCount && r.PromptEvalCount == vfPromptN, "same-prompt-token-count")
	verifAssert(r.EvalCount == final.EvalCount && r.EvalCount == vfEvalN, "same-eval-token-count")
	verifAssert(len(r.Context) == len(final.Context) && (raw == (len(r.Context) == 0)), "same-context")
	if !raw && len(r.Context) == 1 && len(final.Context) == 1 {
		verifAssert(r.Context[0] == final.Context[0] && r.Context[0] == len("rendered")+len(whole), "context-covers-prompt-and-whole-output")
	}
	verifAssert(r.Model == "h/n/m:t" && final.Model == "h/n/m:t", "same-model-name")
}

func vfNames(calls []api.ToolCall) string {
	s := ""
	for _, c := range calls {
		s += c.Function.Name
	}
	return s
}

// VerifC17Chat: the same for chat; tools != 0 sends a tool list, which switches the streaming path to
// incremental tool-call recognition.
func VerifC17Chat(k, maxPiece, mayFail, tools int) {
	vfModel = &Model{Template: &template.Template{}}
	whole := vfArbScript(k, maxPiece, mayFail != 0)
	s := &Server{}
	var toolList api.Tools
	if tools != 0 {
		toolList = api.Tools{{Type: "function"}}
	}
	msgs := []api.Message{{Role: "user", Content: "hi"}}

	vfJSON, vfStreamed = nil, nil
	vfChatReq = api.ChatRequest{Model: "h/n/m:t", Messages: msgs, Tools: toolList, Stream: vfBoolPtr(false)}
	s.ChatHandler(&gin.Context{Request: &http.Request{}})
	verifQuiesce()
	nonStream := vfJSON
	verifAssert(len(vfStreamed) == 0, "non-stream-request-is-not-streamed")
	verifAssert(len(nonStream) == 1, "non-stream-writes-exactly-one-response")

	vfJSON, vfStreamed = nil, nil
	vfChatReq = api.ChatRequest{Model: "h/n/m:t", Messages: msgs, Tools: toolList}
	s.ChatHandler(&gin.Context{Request: &http.Request{}})
	verifQuiesce()
	streamed := vfStreamed
	verifAssert(len(vfJSON) == 0, "stream-request-writes-no-single-response")
	verifReach("both-ran")

	failed := vfFailAfter >= 0
	cat, names, finals, errs, nCalls := "", "", 0, 0, 0
	idxOK := true
	var final api.ChatResponse
	for i, v := range streamed {
		switch r := v.(type) {
		case api.ChatResponse:
			cat += r.Message.Content
			names += vfNames(r.Message.ToolCalls)
			for _, c := range r.Message.ToolCalls {
				if c.Function.Index != nCalls {
					idxOK = false
				}
				nCalls++
			}
			if r.Done {
				finals++
				final = r
				verifAssert(i == len(streamed)-1, "final-message-is-last")
			}
		default:
			_, isErr := vfErrOf(v)
			verifAssert(isErr, "stream-item-is-response-or-error")
			errs++
			verifAssert(i == len(streamed)-1, "error-is-last")
		}
	}
	verifAssert(finals+errs == 1, "stream-ends-with-exactly-one-final-message-or-one-error")
	verifAssert((errs == 1) == failed, "stream-reports-an-error-iff-the-runner-failed")
	verifAssert(idxOK, "streamed-tool-calls-are-numbered-consecutively")
	if len(nonStream) != 1 {
		return
	}
	if failed {
		_, isErr := vfErrOf(nonStream[0].obj)
		verifAssert(isErr && nonStream[0].code == http.StatusInternalServerError, "non-stream-reports-the-failure")
		return
	}
	verifReach("success")
	r, ok := nonStream[0].obj.(api.ChatResponse)
	verifAssert(ok && nonStream[0].code == http.StatusOK, "non-stream-success-is-a-chat-response")
	if !ok {
		return
	}
	if tools == 0 {
		verifAssert(cat == whole && r.Message.Content == whole, "text-is-the-model-output-in-both-modes")
		verifAssert(len(r.Message.ToolCalls) == 0 && nCalls == 0, "no-tool-calls-without-tools")
	} else {
		ref, any := vfParseToolCalls17(nil, whole)
		verifAssert(vfNames(r.Message.ToolCalls) == vfNames(ref), "non-stream-tool-calls-are-those-of-the-whole-output")
		tag := "streamed-tool-calls-equal-non-streamed-ones"
		if any && vfPartialObjectFollowsACall(whole) {
			// known finding: the streaming buffer is reset when a call is recognised, dropping the start
			// of the next object that arrived in the same piece
			tag += "@piece-boundary-inside-the-next-object"
		}
		verifAssert(names == vfNames(r.Message.ToolCalls), tag)
		if !any {
			verifAssert(cat == whole && r.Message.Content == whole, "text-without-tool-calls-is-the-model-output-in-both-modes")
		} else {
			verifAssert(r.Message.Content == cat, "same-text-beside-tool-calls")
		}
	}
	verifAssert(r.Message.Role == "assistant" && final.Message.Role == "assistant", "assistant-role")
	verifAssert(r.Done && final.Done, "both-end-done")
	verifAssert(r.DoneReason == final.DoneReason && r.DoneReason == vfReason.String(), "same-finish-reason")
	verifAssert(r.PromptEvalCount == final.PromptEvalCount && r.PromptEvalCount == vfPromptN, "same-prompt-token-count")
	verifAssert(r.EvalCount == final.EvalCount && r.EvalCount == vfEvalN, "same-eval-token-count")
}

// a piece boundary falls strictly inside a complete object that follows an earlier complete object
func vfPartialObjectFollowsACall(whole string) bool {
	isObj := func(i int) bool {
		return i+2 < len(whole) && whole[i] == '{' && whole[i+1] >= 'a' && whole[i+1] <= 'z' && whole[i+2] == '}'
	}
	seen := false
	for i := 0; i+2 < len(whole); i++ {
		if !isObj(i) {
			continue
		}
		if seen {
			b := 0
			for _, p := range vfScript[:len(vfScript)-1] {
				b += len(p.content)
				if b > i && b < i+3 {
					return true
				}
			}
		}
		seen = true
		i += 2
	}
	return false
}
