package openai

import (
	"bufio"
	"encoding/json"
	"net"
	"net/http"
	"strings"

	"github.com/ollama/ollama/api"
)

// C17, OpenAI layer: the real ChatWriter / CompleteWriter (toChunk, toChatCompletion, toCompletion,
// toCompleteChunk, toUsage, toToolCalls, finish-reason logic, SSE framing) fed with the native
// responses the handlers produce for one model output - as a stream of k chunks and as the one
// aggregated response - and compared. encoding/json is replaced by stubs that hand over / record the
// typed values (the JSON text itself is outside the claim).

type vfRW struct {
	writes []string
	hdr    http.Header
}

func (w *vfRW) Header() http.Header {
	if w.hdr == nil {
		w.hdr = http.Header{}
	}
	return w.hdr
}
func (w *vfRW) Write(b []byte) (int, error)       { w.writes = append(w.writes, string(b)); return len(b), nil }
func (w *vfRW) WriteHeader(int)                   {}
func (w *vfRW) Hijack() (net.Conn, *bufio.ReadWriter, error) { return nil, nil, nil }
func (w *vfRW) Flush()                            {}
func (w *vfRW) CloseNotify() <-chan bool          { return nil }
func (w *vfRW) Status() int                       { return http.StatusOK }
func (w *vfRW) Size() int                         { return 0 }
func (w *vfRW) WriteString(s string) (int, error) { w.writes = append(w.writes, s); return len(s), nil }
func (w *vfRW) Written() bool                     { return len(w.writes) > 0 }
func (w *vfRW) WriteHeaderNow()                   {}
func (w *vfRW) Pusher() http.Pusher               { return nil }

var (
	vfNextChat  api.ChatResponse
	vfNextGen   api.GenerateResponse
	vfMarshaled []any
	vfEncoded   []any
)

func vfUnmarshal(data []byte, v any) error {
	switch r := v.(type) {
	case *api.ChatResponse:
		*r = vfNextChat
	case *api.GenerateResponse:
		*r = vfNextGen
	}
	return nil
}

func vfMarshal(v any) ([]byte, error) {
	switch v.(type) {
	case api.ToolCallFunctionArguments:
		return []byte("{}"), nil
	}
	vfMarshaled = append(vfMarshaled, v)
	return []byte("J"), nil
}

func vfEncode(e *json.Encoder, v any) error {
	vfEncoded = append(vfEncoded, v)
	return nil
}

func vfToolCallID() string { return "call_x" }

func vfReasonStr(k int) string {
	switch k {
	case 0:
		return "stop"
	case 1:
		return "length"
	}
	return ""
}

// VerifC17OpenAIChat: k native chat chunks (the last done); chunk i carries a piece of text or, when
// tools != 0, possibly tool calls numbered the way ChatHandler numbers them.
func VerifC17OpenAIChat(k, maxPiece, tools, usage int) {
	// with tools the native finish reason is "stop" or "length" (an empty one means the client went
	// away: there is no response to compare)
	nReasons := 3
	if tools != 0 {
		nReasons = 2
	}
	reason := vfReasonStr(verifChoice(nReasons))
	pn, en := int(verifNondetU16("prompt-tokens")), int(verifNondetU16("eval-tokens"))
	var chunks []api.ChatResponse
	whole := ""
	var allCalls []api.ToolCall
	for i := 0; i < k; i++ {
		r := api.ChatResponse{Model: "m", Message: api.Message{Role: "assistant"}}
		if tools != 0 && verifChoice(2) == 1 {
			n := 1 + verifChoice(2)
			for j := 0; j < n; j++ {
				tc := api.ToolCall{Function: api.ToolCallFunction{Name: "f", Index: len(allCalls)}}
				r.Message.ToolCalls = append(r.Message.ToolCalls, tc)
				allCalls = append(allCalls, tc)
			}
		} else {
			r.Message.Content = verifNondetString("piece", maxPiece)
			whole += r.Message.Content
		}
		if i == k-1 {
			r.Done, r.DoneReason = true, reason
			r.PromptEvalCount, r.EvalCount = pn, en
		}
		chunks = append(chunks, r)
	}

	// streamed
	var so *StreamOptions
	if usage != 0 {
		so = &StreamOptions{IncludeUsage: true}
	}
	rw := &vfRW{}
	cw := &ChatWriter{stream: true, streamOptions: so, id: "id", BaseWriter: BaseWriter{ResponseWriter: rw}}
	vfMarshaled, vfEncoded = nil, nil
	for _, c := range chunks {
		vfNextChat = c
		n, err := cw.Write([]byte("x"))
		verifAssert(err == nil && n == 1, "chunk-written")
	}
	streamedObjs := vfMarshaled
	verifReach("streamed")

	// framing: every write is one SSE data line; exactly one [DONE], last
	dones := 0
	for i, w := range rw.writes {
		verifAssert(strings.HasPrefix(w, "data: ") && strings.HasSuffix(w, "\n\n"), "sse-framing")
		if w == "data: [DONE]\n\n" {
			dones++
			verifAssert(i == len(rw.writes)-1, "done-marker-is-last")
		}
	}
	verifAssert(dones == 1, "exactly-one-done-marker")

	cat, nCalls := "", 0
	var lastReason *string
	reasons := 0
	seen := map[int]bool{}
	distinct := true
	var usageSeen *Usage
	for _, o := range streamedObjs {
		c, ok := o.(ChatCompletionChunk)
		verifAssert(ok, "streamed-object-is-a-chunk")
		if !ok {
			continue
		}
		if c.Usage != nil {
			usageSeen = c.Usage
		}
		for _, ch := range c.Choices {
			if t, isStr := ch.Delta.Content.(string); isStr {
				cat += t
			}
			for _, tc := range ch.Delta.ToolCalls {
				if seen[tc.Index] {
					distinct = false
				}
				seen[tc.Index] = true
				nCalls++
			}
			if ch.FinishReason != nil {
				lastReason = ch.FinishReason
				reasons++
			}
		}
	}

	// non-streamed: the aggregated response as the handler builds it
	agg := chunks[k-1]
	agg.Message.Content = whole
	agg.Message.ToolCalls = nil
	for _, tc := range allCalls {
		tc.Function.Index = 0 // the non-stream path of ChatHandler does not number the calls
		agg.Message.ToolCalls = append(agg.Message.ToolCalls, tc)
	}
	if len(allCalls) > 0 {
		agg.Message.Content = ""
	}
	rw2 := &vfRW{}
	cw2 := &ChatWriter{stream: false, id: "id", BaseWriter: BaseWriter{ResponseWriter: rw2}}
	vfMarshaled, vfEncoded = nil, nil
	vfNextChat = agg
	_, err := cw2.Write([]byte("x"))
	verifAssert(err == nil, "completion-written")
	verifAssert(len(vfEncoded) == 1, "exactly-one-completion")
	if len(vfEncoded) != 1 {
		return
	}
	comp, ok := vfEncoded[0].(ChatCompletion)
	verifAssert(ok && len(comp.Choices) == 1, "completion-shape")
	if !ok || len(comp.Choices) != 1 {
		return
	}
	verifReach("compared")
	msg := comp.Choices[0].Message
	if len(allCalls) == 0 {
		mc, _ := msg.Content.(string)
		verifAssert(mc == cat && cat == whole, "same-content")
	}
	verifAssert(len(msg.ToolCalls) == nCalls && nCalls == len(allCalls), "same-number-of-tool-calls")
	verifAssert(distinct, "streamed-tool-call-indexes-are-distinct")
	verifAssert(reasons <= 1, "at-most-one-finish-reason-in-the-stream")
	fr := comp.Choices[0].FinishReason
	verifAssert((fr == nil) == (lastReason == nil), "finish-reason-present-in-both-or-neither")
	if fr != nil && lastReason != nil {
		verifAssert(*fr == *lastReason, "same-finish-reason")
		if len(allCalls) > 0 {
			verifAssert(*fr == "tool_calls", "finish-reason-names-tool-calls")
		} else {
			verifAssert(*fr == reason, "finish-reason-is-the-native-one")
		}
	}
	verifAssert(comp.Usage.PromptTokens == pn && comp.Usage.CompletionTokens == en && comp.Usage.TotalTokens == pn+en, "completion-usage")
	if usage != 0 {
		verifAssert(usageSeen != nil, "usage-chunk-sent-when-asked")
		if usageSeen != nil {
			verifAssert(*usageSeen == comp.Usage, "same-usage")
		}
	} else {
		verifAssert(usageSeen == nil, "no-usage-chunk-unless-asked")
	}
}

// VerifC17OpenAIComplete: the same for /v1/completions.
func VerifC17OpenAIComplete(k, maxPiece, usage int) {
	reason := vfReasonStr(verifChoice(3))
	pn, en := int(verifNondetU16("prompt-tokens")), int(verifNondetU16("eval-tokens"))
	var chunks []api.GenerateResponse
	whole := ""
	for i := 0; i < k; i++ {
		r := api.GenerateResponse{Model: "m", Response: verifNondetString("piece", maxPiece)}
		whole += r.Response
		if i == k-1 {
			r.Done, r.DoneReason = true, reason
			r.PromptEvalCount, r.EvalCount = pn, en
		}
		chunks = append(chunks, r)
	}
	var so *StreamOptions
	if usage != 0 {
		so = &StreamOptions{IncludeUsage: true}
	}
	rw := &vfRW{}
	cw := &CompleteWriter{stream: true, streamOptions: so, id: "id", BaseWriter: BaseWriter{ResponseWriter: rw}}
	vfMarshaled, vfEncoded = nil, nil
	for _, c := range chunks {
		vfNextGen = c
		_, err := cw.Write([]byte("x"))
		verifAssert(err == nil, "chunk-written")
	}
	streamedObjs := vfMarshaled
	dones := 0
	for i, w := range rw.writes {
		verifAssert(strings.HasPrefix(w, "data: ") && strings.HasSuffix(w, "\n\n"), "sse-framing")
		if w == "data: [DONE]\n\n" {
			dones++
			verifAssert(i == len(rw.writes)-1, "done-marker-is-last")
		}
	}
	verifAssert(dones == 1, "exactly-one-done-marker")
	cat := ""
	var lastReason *string
	var usageSeen *Usage
	for _, o := range streamedObjs {
		c, ok := o.(CompletionChunk)
		verifAssert(ok, "streamed-object-is-a-chunk")
		if !ok {
			continue
		}
		if c.Usage != nil && len(c.Choices) == 0 {
			usageSeen = c.Usage
		}
		for _, ch := range c.Choices {
			cat += ch.Text
			if ch.FinishReason != nil {
				lastReason = ch.FinishReason
			}
		}
	}
	agg := chunks[k-1]
	agg.Response = whole
	rw2 := &vfRW{}
	cw2 := &CompleteWriter{stream: false, id: "id", BaseWriter: BaseWriter{ResponseWriter: rw2}}
	vfMarshaled, vfEncoded = nil, nil
	vfNextGen = agg
	_, err := cw2.Write([]byte("x"))
	verifAssert(err == nil && len(vfEncoded) == 1, "exactly-one-completion")
	if len(vfEncoded) != 1 {
		return
	}
	comp, ok := vfEncoded[0].(Completion)
	verifAssert(ok && len(comp.Choices) == 1, "completion-shape")
	if !ok || len(comp.Choices) != 1 {
		return
	}
	verifReach("compared")
	verifAssert(comp.Choices[0].Text == cat && cat == whole, "same-content")
	fr := comp.Choices[0].FinishReason
	verifAssert((fr == nil) == (lastReason == nil), "finish-reason-present-in-both-or-neither")
	if fr != nil && lastReason != nil {
		verifAssert(*fr == *lastReason && *fr == reason, "same-finish-reason")
	}
	verifAssert(comp.Usage.PromptTokens == pn && comp.Usage.CompletionTokens == en && comp.Usage.TotalTokens == pn+en, "completion-usage")
	if usage != 0 {
		verifAssert(usageSeen != nil, "usage-chunk-sent-when-asked")
		if usageSeen != nil {
			verifAssert(*usageSeen == comp.Usage, "same-usage")
		}
	}
}
