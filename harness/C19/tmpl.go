package template

import (
	"bytes"
	"io"
	"strings"
	texttemplate "text/template"
	"text/template/parse"

	"github.com/ollama/ollama/api"
)

// C19, template layer: the real Template.Execute (collate, the "messages" path, the legacy
// prompt/response path with its flush rules and the final partial rendering) over every sequence
// of roles; text/template's own Execute is replaced by a recorder of the values it is handed, so
// the claim is about WHAT reaches the template text, not how a concrete template prints it.

type vfCall struct {
	system, prompt, response string
	hasMessages              bool
	messages                 []*api.Message
}

var (
	vfCalls   []vfCall
	vfHasMsgs bool
)

func vfTextExecute(t *texttemplate.Template, w io.Writer, data any) error {
	m, ok := data.(map[string]any)
	if !ok {
		return nil
	}
	c := vfCall{}
	c.system, _ = m["System"].(string)
	c.prompt, _ = m["Prompt"].(string)
	c.response, _ = m["Response"].(string)
	if ms, ok := m["Messages"].([]*api.Message); ok {
		c.hasMessages = true
		c.messages = ms
	}
	vfCalls = append(vfCalls, c)
	io.WriteString(w, "x")
	return nil
}

func vfVars(t *Template) []string {
	if vfHasMsgs {
		return []string{"messages", "system"}
	}
	return []string{"prompt", "response", "system"}
}

type vfRC struct{ role, content string }

// reference: merge neighbours of the same role (written independently of collate)
func vfRefCollate(msgs []api.Message) (system []string, out []vfRC) {
	for _, m := range msgs {
		if m.Role == "system" {
			system = append(system, m.Content)
		}
		if n := len(out); n > 0 && out[n-1].role == m.Role {
			out[n-1].content += "\n\n" + m.Content
		} else {
			out = append(out, vfRC{m.Role, m.Content})
		}
	}
	return
}

func vfRole(k int) string {
	switch k {
	case 0:
		return "system"
	case 1:
		return "user"
	}
	return "assistant"
}

// VerifC19Template: n messages, every role sequence, contents of 1-2 symbolic bytes.
func VerifC19Template(n int, messagesStyle int) {
	vfCalls, vfHasMsgs = nil, messagesStyle != 0
	var msgs []api.Message
	for i := 0; i < n; i++ {
		c := verifNondetString("content", 2)
		verifAssume(len(c) > 0) // an empty message has nothing to keep (and an empty user turn hides the turn boundary)
		msgs = append(msgs, api.Message{Role: vfRole(verifChoice(3)), Content: c})
	}
	in := make([]api.Message, len(msgs))
	copy(in, msgs)
	t := &Template{Template: texttemplate.New("")}
	t.Template.Tree = &parse.Tree{Root: &parse.ListNode{NodeType: parse.NodeList}}
	var b bytes.Buffer
	err := t.Execute(&b, Values{Messages: in})
	verifAssert(err == nil, "execute-succeeds")
	verifReach("executed")
	sys, want := vfRefCollate(msgs)
	if messagesStyle != 0 {
		verifAssert(len(vfCalls) == 1 && vfCalls[0].hasMessages, "messages-style-renders-once")
		if len(vfCalls) != 1 {
			return
		}
		c := vfCalls[0]
		verifAssert(c.system == strings.Join(sys, "\n\n"), "system-value-holds-every-system-message")
		verifAssert(len(c.messages) == len(want), "collated-message-count")
		if len(c.messages) == len(want) {
			for i := range want {
				verifAssert(c.messages[i].Role == want[i].role && c.messages[i].Content == want[i].content, "collated-messages-keep-every-content-in-order")
			}
		}
		return
	}
	// legacy style: the non-empty values handed to the template, in order, are the non-empty
	// collated contents in order; within one rendering: system, prompt, response
	var got []string
	for _, c := range vfCalls {
		verifAssert(!c.hasMessages, "legacy-style-renders-turns")
		for _, s := range []string{c.system, c.prompt, c.response} {
			if s != "" {
				got = append(got, s)
			}
		}
	}
	var exp []string
	for _, w := range want {
		if w.content != "" {
			exp = append(exp, w.content)
		}
	}
	verifAssert(len(got) == len(exp), "legacy-rendering-keeps-every-message")
	if len(got) == len(exp) {
		for i := range exp {
			verifAssert(got[i] == exp[i], "legacy-rendering-keeps-every-message-in-order")
		}
	}
}
