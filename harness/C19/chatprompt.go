package server

import (
	"context"
	"fmt"
	"io"
	"strings"

	"github.com/ollama/ollama/api"
	"github.com/ollama/ollama/template"
)

// C19: chatPrompt with the template and the tokenizer replaced by recorders/oracles-free stubs.
//
// Template.Execute is replaced by a recorder of the message list it is given; the tokenizer
// returns a slice whose length is an arbitrary (solver-chosen) function of the call index, so
// every relation between "suffix starting at i" and its token count is covered.

var vfRendered [][]api.Message

func vfExecute(t *template.Template, w io.Writer, v template.Values) error {
	cp := make([]api.Message, len(v.Messages))
	copy(cp, v.Messages)
	vfRendered = append(vfRendered, cp)
	for _, m := range v.Messages {
		io.WriteString(w, m.Role)
		io.WriteString(w, "|")
		io.WriteString(w, m.Content)
		io.WriteString(w, ";")
	}
	return nil
}

// natively: a real template that prints every message; in the engine replaced by vfTemplateStub
func vfTemplate() *template.Template {
	t, err := template.Parse("{{range .Messages}}{{.Role}}|{{.Content}};{{end}}")
	if err != nil {
		panic(err)
	}
	return t
}

func vfTemplateStub() *template.Template { return &template.Template{} }

const vfMaxMsgs = 6

func VerifC19Chat(nMsgs int, withProjector int) { vfC19Chat(nMsgs, withProjector, false) }

// VerifC19ChatWeighted: the token count is a function of the rendered text - every message has a
// solver-chosen weight and a text costs the sum of the weights of the messages printed in it, as
// often as they are printed - so that what is counted must be what is finally rendered.
func VerifC19ChatWeighted(nMsgs int, withProjector int) { vfC19Chat(nMsgs, withProjector, true) }

func vfC19Chat(nMsgs int, withProjector int, weighted bool) {
	vfRendered = nil
	ids := [vfMaxMsgs]string{"#A", "#B", "#C", "#D", "#E", "#F"}
	msgs := make([]api.Message, nMsgs)
	isSys := make([]bool, nMsgs)
	nImg := make([]int, nMsgs)
	for i := range msgs {
		// role and marker are case-split up front so that all string handling is concrete
		isSys[i] = verifChoice(2) == 1
		msgs[i].Role = "user"
		if isSys[i] {
			msgs[i].Role = "system"
		}
		msgs[i].Content = "text " + ids[i]
		if verifChoice(2) == 1 {
			msgs[i].Content = "see [img] " + ids[i]
		}
		k := verifNondetInt("images")
		verifAssume(k >= 0 && k <= 2)
		nImg[i] = k
		imgs := []api.ImageData{{byte(i), 0}, {byte(i), 1}}
		msgs[i].Images = imgs[:k]
	}
	numCtx := verifNondetInt("numCtx")
	verifAssume(numCtx >= 0 && numCtx <= 1<<20)
	tokLens := make([]int, nMsgs)
	for i := range tokLens {
		tokLens[i] = verifNondetInt("tokens")
		verifAssume(tokLens[i] >= 0 && tokLens[i] <= 64)
	}
	calls := 0
	buf := make([]int, 64)
	weights := make([]int, nMsgs)
	if weighted {
		for i := range weights {
			weights[i] = verifNondetInt("weight")
			verifAssume(weights[i] >= 0 && weights[i] <= 8)
		}
	}
	tokenize := func(ctx context.Context, s string) ([]int, error) {
		k := tokLens[calls]
		if weighted {
			k = 0
			for i := 0; i < nMsgs; i++ {
				for c := strings.Count(s, ids[i]); c > 0; c-- {
					k += weights[i]
				}
			}
			tokLens[calls] = k
		}
		calls++
		return buf[:k], nil
	}
	m := &Model{Template: vfTemplate()}
	if withProjector != 0 {
		m.ProjectorPaths = []string{"projector"}
	}
	opts := api.DefaultOptions()
	opts.NumCtx = numCtx

	orig := make([]api.Message, nMsgs)
	copy(orig, msgs)
	prompt, images, err := chatPrompt(context.Background(), m, tokenize, &opts, msgs, nil)
	verifAssert(err == nil, "no-error")
	if err != nil {
		return
	}
	verifReach("returned")

	// the specification's n: walk back while every suffix fits (call c examines index last-1-c)
	last := nMsgs - 1
	n := last
	imgTokens := 0
	if withProjector != 0 {
		imgTokens = 768 * nImg[last]
	}
	for i := last - 1; i >= 0; i-- {
		if withProjector != 0 {
			imgTokens += 768 * nImg[i]
		}
		cost := tokLens[last-1-i]
		if weighted {
			// what the specification counts: the system messages before i and the run from i, once each
			cost = 0
			for j := 0; j < nMsgs; j++ {
				if j >= i || isSys[j] {
					cost += weights[j]
				}
			}
		}
		if cost+imgTokens > numCtx {
			break
		}
		n = i
	}
	// expected: system messages before n, then msgs[n:] (as rewritten with image tags), in order,
	// rendered by the same template
	var want []api.Message
	for j := 0; j < n; j++ {
		if isSys[j] {
			want = append(want, msgs[j])
		}
	}
	want = append(want, msgs[n:]...)
	var wb strings.Builder
	m.Template.Execute(&wb, template.Values{Messages: want})
	verifAssert(strings.Contains(prompt, ids[last]), "latest-message-present")
	verifAssert(prompt == wb.String(), "prompt-is-system-messages-plus-longest-fitting-recent-run")

	// images: every image of a retained message once, in order, IDs = index; none of dropped messages
	total := 0
	for j := n; j < nMsgs; j++ {
		total += nImg[j]
	}
	verifAssert(len(images) == total, "image-count")
	if len(images) == total {
		k := 0
		for j := n; j < nMsgs; j++ {
			for q := 0; q < nImg[j]; q++ {
				verifAssert(images[k].ID == k, "image-id-is-index")
				verifAssert(len(images[k].Data) == 2 && images[k].Data[0] == byte(j) && images[k].Data[1] == byte(q), "image-belongs-to-retained-message")
				verifAssert(strings.Count(msgs[j].Content, fmt.Sprintf("[img-%d]", k)) == 1, "image-tag-once-in-its-message")
				k++
			}
		}
	}
	_ = orig
}
