package ggml

import (
	"errors"
	"io"
)

// C05 harness A: tensor offsets for all sizes.
//
// The file is a harness WriteSeeker that stores the bytes written while the position is
// concrete (header, tensor infos, first padding) and, for tensor data, only records where
// each tensor's bytes start and advances a symbolic position. Decoding runs the real
// Decode (BufferedSeeker, bufio, gguf.Decode) over the stored header; the data region is
// only ever seeked over.

const vfMaxT = 4

type vfFile struct {
	hdr    []byte
	pos    int64
	data   bool
	starts [vfMaxT]int64
	sizes  [vfMaxT]int64
}

func (f *vfFile) Write(p []byte) (int, error) {
	if !f.data {
		f.hdr = append(f.hdr, p...)
	}
	f.pos += int64(len(p))
	return len(p), nil
}

func (f *vfFile) Seek(off int64, whence int) (int64, error) {
	if whence == io.SeekCurrent && off == 0 {
		return f.pos, nil
	}
	return 0, errors.New("vfFile: unsupported seek")
}

type vfData struct {
	f *vfFile
	i int
	n int64
}

func (d vfData) WriteTo(w io.Writer) (int64, error) {
	d.f.data = true
	d.f.starts[d.i] = d.f.pos
	d.f.sizes[d.i] = d.n
	d.f.pos += d.n
	return d.n, nil
}

type vfReader struct {
	f    *vfFile
	rpos int64
}

func (r *vfReader) Read(p []byte) (int, error) {
	if r.rpos >= int64(len(r.f.hdr)) {
		return 0, io.EOF
	}
	n := copy(p, r.f.hdr[r.rpos:])
	r.rpos += int64(n)
	return n, nil
}

func (r *vfReader) Seek(off int64, whence int) (int64, error) {
	var np int64
	switch whence {
	case io.SeekStart:
		np = off
	case io.SeekCurrent:
		np = r.rpos + off
	default:
		return 0, errors.New("vfReader: unsupported whence")
	}
	if np < 0 {
		return 0, errors.New("vfReader: negative position")
	}
	r.rpos = np
	return np, nil
}

var vfNamesPlain = [vfMaxT]string{"token_embd.weight", "output.weight", "output_norm.weight", "rope_freqs.weight"}
var vfNamesBlk = [vfMaxT]string{"blk.1.attn_q.weight", "token_embd.weight", "blk.0.ffn_up.weight", "output.weight"}

// ggml's type table for the kinds the jobs use: elements per block, bytes per block
func vfRefBlock(kind int) (bs, bytes uint64, known bool) {
	switch kind {
	case 0:
		return 1, 4, true
	case 1, 30:
		return 1, 2, true
	case 2:
		return 32, 18, true
	case 8:
		return 32, 34, true
	case 12:
		return 256, 144, true
	case 14:
		return 256, 210, true
	}
	return 0, 0, false
}

// VerifC05Offsets: nT tensors of one kind with one symbolic dimension each (and a fixed second
// dimension dim2 >= 1), written with the given alignment, then decoded.
func VerifC05Offsets(nT int, align int, kind int, dim2 int, blk int) {
	f := &vfFile{}
	names := vfNamesPlain
	if blk != 0 {
		names = vfNamesBlk
	}
	ts := make([]Tensor, nT)
	for i := 0; i < nT; i++ {
		n := verifNondetU64("n")
		verifAssume(n < 1<<40)
		shape := []uint64{n}
		if dim2 > 1 {
			shape = []uint64{n, uint64(dim2)}
		}
		ts[i] = Tensor{Name: names[i], Kind: uint32(kind), Shape: shape}
		// the bytes a tensor occupies, from ggml's published type table (not from Tensor.Size): elements
		// / elements-per-block x bytes-per-block
		elems := n
		if dim2 > 1 {
			elems = n * uint64(dim2)
		}
		if bs, tsz, known := vfRefBlock(kind); known {
			verifAssume(elems%bs == 0) // a tensor holds whole blocks
			verifAssert(ts[i].Size() == elems/bs*tsz, "size-is-elements-over-block-times-block-bytes")
		}
		ts[i].WriterTo = vfData{f: f, i: i, n: int64(ts[i].Size())}
	}
	kv := KV{"general.architecture": "x"}
	if align != 32 {
		kv["general.alignment"] = uint32(align)
	}
	err := WriteGGUF(f, kv, ts)
	verifAssert(err == nil, "write-succeeds")
	if err != nil {
		return
	}
	g, end, err := Decode(&vfReader{f: f}, -1)
	verifAssert(err == nil, "decode-succeeds")
	if err != nil {
		return
	}
	verifReach("decoded")
	items := g.Tensors().Items()
	verifAssert(len(items) == nT, "tensor-count")
	for _, t := range items {
		i := -1
		for j := 0; j < nT; j++ {
			if names[j] == t.Name {
				i = j
			}
		}
		verifAssert(i >= 0, "tensor-name-known")
		if i < 0 {
			continue
		}
		verifAssert(int64(g.Tensors().Offset+t.Offset) == f.starts[i], "offset-is-where-the-bytes-are")
		verifAssert(t.Offset%uint64(align) == 0, "offset-aligned")
		verifAssert(int64(t.Size()) == f.sizes[i], "size-preserved")
		verifAssert(t.Kind == uint32(kind), "kind-preserved")
	}
	verifAssert(end == f.pos, "end-offset-is-file-length")
}

// ---- harness B: metadata values survive write -> decode, byte for byte ----

func vfFixedString(tag string, n int) string {
	s := verifNondetString(tag, n)
	verifAssume(len(s) == n) // the length is a job parameter; the bytes are arbitrary
	return s
}

// VerifC05KV: values of the kinds WriteGGUF accepts, with symbolic contents (strings of n arbitrary bytes,
// arrays of two elements), written and decoded again. mode 0: scalars and a string; 1: numeric arrays;
// 2: a string array.
func VerifC05KV(n int, mode int) {
	f := &vfFile{}
	kv := KV{"general.architecture": "x"}
	u := verifNondetU32("u32")
	fl := verifF32(verifNondetU32("f32bits"))
	b := verifNondetBool("bool")
	sn := n
	if mode == 4 {
		sn = 1
	}
	s := vfFixedString("string", sn)
	i1, i2 := verifNondetInt32("int"), verifNondetInt32("int")
	u1, u2 := verifNondetU32("uint"), verifNondetU32("uint")
	f1 := verifF32(verifNondetU32("f32bits"))
	s1, s2 := vfFixedString("elem", sn), vfFixedString("elem", sn)
	var long string
	if mode == 4 {
		// a string longer than the decoder's 16 KiB scratch buffer and than the reader's 32 KiB buffer: n KiB of
		// a fixed pattern with arbitrary first and last bytes
		bs := make([]byte, n*1024)
		for i := range bs {
			bs[i] = byte(i*7 + 3)
		}
		bs[0], bs[len(bs)-1] = verifNondetU8("first"), verifNondetU8("last")
		long = string(bs)
		kv["x.long"], kv["x.after"] = long, u
	}
	switch mode {
	case 0:
		kv["x.u32"], kv["x.bool"], kv["x.str"] = u, b, s
	case 3:
		kv["x.f32"] = fl
	case 1:
		kv["x.ints"], kv["x.uints"], kv["x.floats"] = []int32{i1, i2}, []uint32{u1, u2}, []float32{f1}
	case 2:
		kv["x.strs"] = []string{s1, s2}
	}
	err := WriteGGUF(f, kv, nil)
	verifAssert(err == nil, "write-succeeds")
	if err != nil {
		return
	}
	g, _, err := Decode(&vfReader{f: f}, -1)
	verifAssert(err == nil, "decode-succeeds")
	if err != nil {
		return
	}
	verifReach("decoded")
	got := g.KV()
	verifAssert(got.Architecture() == "x", "architecture-preserved")
	if mode == 4 {
		verifAssert(got.String("long") == long, "long-string-preserved")
		verifAssert(got.Uint("after") == u, "value-after-a-long-string-preserved")
	}
	switch mode {
	case 0:
		verifAssert(got.Uint("u32") == u, "uint32-preserved")
		verifAssert(got.Bool("bool") == b, "bool-preserved")
		verifAssert(got.String("str") == s, "string-preserved")
	case 3:
		if fl == fl {
			verifAssert(got.Float("f32") == fl, "float32-preserved")
		}
	case 1:
		us := got.Uints("uints")
		verifAssert(len(us) == 2 && us[0] == u1 && us[1] == u2, "uint32-array-preserved")
		fs := got.Floats("floats")
		verifAssert(len(fs) == 1, "float32-array-length-preserved")
		if len(fs) == 1 && f1 == f1 {
			verifAssert(fs[0] == f1, "float32-array-preserved")
		}
		// int32 arrays are read through Uints by the models (token types)
		is := got.Uints("ints")
		verifAssert(len(is) == 2 && is[0] == uint32(i1) && is[1] == uint32(i2), "int32-array-preserved")
	case 2:
		ss := got.Strings("strs")
		verifAssert(len(ss) == 2 && ss[0] == s1 && ss[1] == s2, "string-array-preserved")
	}
}
