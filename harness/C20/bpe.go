package model

import (
	"iter"
	"slices"
	"strings"
	"unicode/utf8"
)

// The GPT-2 byte -> symbol table written from the published rule (bytes_to_unicode): printable
// bytes stand for themselves, the others are numbered 256, 257, ... in byte order. It is
// deliberately NOT derived from Encode's arithmetic: the vocabulary below is what a model file
// built with the reference tooling contains.
func vfGPT2Symbols() []rune {
	out := make([]rune, 256)
	n := 0
	for b := 0; b < 256; b++ {
		if b >= '!' && b <= '~' || b >= 0xA1 && b <= 0xAC || b >= 0xAE && b <= 0xFF {
			out[b] = rune(b)
		} else {
			out[b] = rune(256 + n)
			n++
		}
	}
	return out
}

const vfSpecialLit = "<s>"

// A byte-level BPE vocabulary that covers every byte, laid out as every GPT-2-derived vocabulary
// is: ids 0..255 are the byte symbols in bytes_to_unicode order (the printable bytes first, then
// the renumbered ones), then the results of the merges, then one control token. Merges (rank
// order):  a b, b c, ab c, a a, Ġ a, Ã ©   (the last is the two bytes of U+00E9)
func vfBPEVocab(withSpecial bool) (*Vocabulary, int32) {
	sym := vfGPT2Symbols()
	v := &Vocabulary{BOS: -1, EOS: -1, EOT: -1}
	for pass := 0; pass < 2; pass++ {
		for b := 0; b < 256; b++ {
			if (sym[b] < 256) == (pass == 0) {
				v.Values = append(v.Values, string(sym[b]))
				v.Types = append(v.Types, TOKEN_TYPE_NORMAL)
			}
		}
	}
	sp := string(sym[' '])
	e1, e2 := string(sym[0xC3]), string(sym[0xA9])
	merges := [][2]string{{"a", "b"}, {"b", "c"}, {"ab", "c"}, {"a", "a"}, {sp, "a"}, {e1, e2}}
	for _, m := range merges {
		v.Merges = append(v.Merges, m[0]+" "+m[1])
		v.Values = append(v.Values, m[0]+m[1])
		v.Types = append(v.Types, TOKEN_TYPE_NORMAL)
	}
	special := int32(-1)
	if withSpecial {
		special = int32(len(v.Values))
		v.Values = append(v.Values, vfSpecialLit)
		v.Types = append(v.Types, TOKEN_TYPE_CONTROL)
	}
	return v, special
}

// Stand-in for the pre-tokenizer: an arbitrary partition of the text into consecutive non-empty
// pieces (the cut points are solver-chosen). Replaces (*BytePairEncoding).split in the engine.
var vfNoCuts bool

func vfSplitAny(bpe *BytePairEncoding, s string) iter.Seq[string] {
	return func(yield func(string) bool) {
		start := 0
		for i := 1; i <= len(s); i++ {
			if i == len(s) || (!vfNoCuts && verifNondetBool("cut")) {
				if !yield(s[start:i]) {
					return
				}
				start = i
			}
		}
	}
}

// VerifC20BPE: every valid UTF-8 text of up to maxLen bytes without NUL, every partition by the
// pre-tokenizer.
func VerifC20BPE(maxLen int, withSpecial int) {
	vocab, special := vfBPEVocab(withSpecial != 0 && withSpecial != 3)
	bpe := BytePairEncoding{vocab: vocab}
	s := verifNondetString("text", maxLen)
	if withSpecial == 3 {
		// repeated-letter texts: every string over {a, b, c} of up to maxLen bytes, as one piece (runs of
		// equal letters queue several merges of one rank, some of which go stale)
		for i := 0; i < len(s); i++ {
			verifAssume(s[i] == 'a' || s[i] == 'b' || s[i] == 'c')
		}
		vfNoCuts = true
		defer func() { vfNoCuts = false }()
	}
	if withSpecial == 2 { // two occurrences of the control token's literal around the symbolic part
		s = vfSpecialLit + s + vfSpecialLit
	}
	verifAssume(utf8.ValidString(s) && !strings.Contains(s, "\x00"))
	ids, err := bpe.Encode(s, false)
	verifAssert(err == nil, "encode-succeeds")
	if err != nil {
		return
	}
	verifReach("encoded")
	for _, id := range ids {
		verifAssert(id >= 0 && int(id) < len(vocab.Values), "id-inside-vocabulary")
	}
	if withSpecial == 2 {
		n := 0
		for _, id := range ids {
			if id == special {
				n++
			}
		}
		verifAssert(n == 2, "every-occurrence-of-the-special-literal-encodes-to-the-special-id")
		verifReach("special-seen")
		return
	}
	if special >= 0 {
		// maxLen < 2*len(literal): at most one occurrence
		verifAssert(strings.Contains(s, vfSpecialLit) == slices.Contains(ids, special), "special-literal-encodes-to-special-id")
		if strings.Contains(s, vfSpecialLit) {
			verifReach("special-seen")
			return // the control token's own text is what Decode prints for it; covered by the clause above
		}
	}
	out, err := bpe.Decode(ids)
	verifAssert(err == nil, "decode-succeeds")
	tag := "roundtrip"
	if strings.Contains(s, vocab.Values[105]) || strings.Contains(s, vocab.Values[106]) {
		// known finding: Vocabulary.SpecialVocabulary treats ids 105 and 106 as special tokens in every
		// vocabulary; in a GPT-2-derived one they are the symbols of bytes 0xAC and 0xAE
		tag += "@text-contains-the-text-of-token-105-or-106"
	}
	verifAssert(out == s, tag)
	if len(s) > 0 {
		verifAssert(len(ids) > 0 && len(ids) <= len(s), "token-count-at-most-bytes")
	}
}
