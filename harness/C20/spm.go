package model

import (
	"fmt"
	"slices"
	"strings"
	"unicode/utf8"
)

// A SentencePiece vocabulary with byte fallback that covers every byte: <unk>, two control tokens,
// the 256 byte tokens, then a few scored pieces (the separator, letters, merges of them, a
// two-byte letter).
func vfSPMVocab() (*Vocabulary, int32) {
	v := &Vocabulary{BOS: 1, EOS: 2, EOT: -1}
	add := func(s string, typ uint32, score float32) int32 {
		v.Values = append(v.Values, s)
		v.Types = append(v.Types, typ)
		v.Scores = append(v.Scores, score)
		return int32(len(v.Values) - 1)
	}
	add("<unk>", TOKEN_TYPE_UNKNOWN, 0)
	special := add(vfSpecialLit, TOKEN_TYPE_CONTROL, 0)
	add("</s>", TOKEN_TYPE_CONTROL, 0)
	for b := 0; b < 256; b++ {
		add(fmt.Sprintf("<0x%02X>", b), TOKEN_TYPE_BYTE, 0)
	}
	add(spmWhitespaceSep, TOKEN_TYPE_NORMAL, -1)
	add("a", TOKEN_TYPE_NORMAL, -2)
	add("b", TOKEN_TYPE_NORMAL, -3)
	add("c", TOKEN_TYPE_NORMAL, -4)
	add("ab", TOKEN_TYPE_NORMAL, -5)
	add("bc", TOKEN_TYPE_NORMAL, -5)
	add(spmWhitespaceSep+"a", TOKEN_TYPE_NORMAL, -6)
	add("abc", TOKEN_TYPE_NORMAL, -7)
	add("é", TOKEN_TYPE_NORMAL, -8)
	return v, special
}

// VerifC20SPM: every valid UTF-8 text of up to maxLen bytes without NUL. prefix/suffix fix the
// shape of longer texts (never the symbolic part).
func VerifC20SPM(maxLen int, shape int) {
	prefix, suffix := "", ""
	if shape == 1 {
		prefix, suffix = "<0x", ">"
	}
	if shape == 2 { // two occurrences of the control token's literal around the symbolic part
		prefix, suffix = vfSpecialLit, vfSpecialLit
	}
	vocab, special := vfSPMVocab()
	spm := NewSentencePieceModel(vocab)
	s := prefix + verifNondetString("text", maxLen) + suffix
	verifAssume(utf8.ValidString(s) && !strings.Contains(s, "\x00"))
	ids, err := spm.Encode(s, false)
	verifAssert(err == nil, "encode-succeeds")
	if err != nil {
		return
	}
	verifReach("encoded")
	for _, id := range ids {
		verifAssert(id >= 0 && int(id) < len(vocab.Values), "id-inside-vocabulary")
	}
	if len(s) < 2*len(vfSpecialLit) {
		verifAssert(strings.Contains(s, vfSpecialLit) == slices.Contains(ids, special), "special-literal-encodes-to-special-id")
	}
	if shape == 2 {
		n := 0
		for _, id := range ids {
			if id == special {
				n++
			}
		}
		verifAssert(n == 2, "every-occurrence-of-the-special-literal-encodes-to-the-special-id")
	}
	if strings.Contains(s, vfSpecialLit) || strings.Contains(s, "</s>") {
		verifReach("special-seen")
		return
	}
	out, err := spm.Decode(ids)
	verifAssert(err == nil, "decode-succeeds")
	tag := "roundtrip"
	if strings.Contains(s, spmWhitespaceSep) {
		tag += "@text-contains-the-separator-character"
	} else if vfIsByteTokenLiteral(s) {
		tag += "@text-is-the-literal-form-of-a-byte-token"
	}
	verifAssert(out == s, tag)
}

func vfIsByteTokenLiteral(s string) bool {
	hex := func(c byte) bool { return c >= '0' && c <= '9' || c >= 'A' && c <= 'F' }
	return len(s) == 6 && s[:3] == "<0x" && s[5] == '>' && hex(s[3]) && hex(s[4])
}
