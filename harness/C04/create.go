package server

import (
	"context"
	"errors"
	"net/http"

	"github.com/gin-gonic/gin"

	"github.com/ollama/ollama/api"
	"github.com/ollama/ollama/types/model"
)

// C04, create: the real CreateHandler (name canonicalisation, the producer goroutine and its progress
// channel, error reporting, pruning of the replaced manifest's layers) with the expensive steps replaced
// by stubs with arbitrary outcomes: parseFromModel (load / pull the base model) and createModel (write
// layers and manifest; the stub replaces the named model in the store model).

var (
	vfCreateReq   api.CreateRequest
	vfMsgs        []any
	vfCreateCalls int
	vfBaseFailed  bool
)

func vfParseFromModel(ctx context.Context, name model.Name, fn func(api.ProgressResponse)) ([]*layerGGML, error) {
	fn(api.ProgressResponse{Status: "pulling manifest"})
	if verifChoice(2) == 1 {
		vfBaseFailed = true
		return nil, errors.New("pull model manifest: file does not exist")
	}
	return []*layerGGML{{Layer: Layer{MediaType: "application/vnd.ollama.image.model", Digest: vfDigest(0, false)}}}, nil
}

func vfCreateModel(r api.CreateRequest, name model.Name, baseLayers []*layerGGML, fn func(api.ProgressResponse)) error {
	vfCreateCalls++
	fn(api.ProgressResponse{Status: "writing manifest"})
	if verifChoice(2) == 1 {
		return errors.New("disk full")
	}
	m := &Manifest{SchemaVersion: 2}
	for _, l := range baseLayers {
		m.Layers = append(m.Layers, l.Layer)
	}
	vfStore[name] = m
	return nil
}

func vfStreamResponse(c *gin.Context, ch chan any) {
	for v := range ch {
		vfMsgs = append(vfMsgs, v)
	}
}

// VerifC04Create: create (or re-create) model "a" FROM model "b" over an arbitrary store.
func VerifC04Create(nMan int) {
	vfRemoved, vfMsgs, vfCreateCalls, vfBaseFailed = nil, nil, 0, false
	vfArbStore(nMan, false)
	target := model.Name{Host: "h", Namespace: "n", Model: "a", Tag: "t"}
	before := vfStore[target]
	vfCreateReq = api.CreateRequest{Model: "h/n/a:t", From: "h/n/b:t"}
	s := &Server{}
	s.CreateHandler(&gin.Context{Request: &http.Request{}})
	verifReach("create-returned")
	errs, succ, lastErr := 0, 0, -1
	for i, v := range vfMsgs {
		switch r := v.(type) {
		case gin.H:
			if _, ok := r["error"]; ok {
				errs++
				lastErr = i
			}
		case api.ProgressResponse:
			if r.Status == "success" {
				succ++
			}
		}
	}
	verifAssert(errs+succ >= 1, "create-reports-an-outcome")
	verifAssert(!(errs > 0 && succ > 0), "create-reports-both-an-error-and-success")
	if vfBaseFailed {
		verifReach("base-model-failed")
		verifAssert(errs > 0, "failure-to-load-the-base-model-is-reported")
		verifAssert(vfCreateCalls == 0, "model-is-written-although-its-base-model-could-not-be-loaded")
	}
	if errs > 0 {
		// a create that reported an error leaves the named model as it was, and removes nothing
		verifAssert(vfStore[target] == before, "failed-create-leaves-the-named-model-unchanged")
		verifAssert(lastErr == len(vfMsgs)-1, "nothing-is-reported-after-an-error")
	} else {
		verifReach("create-succeeded")
	}
	vfCheckRemovals("blob-still-referenced-by-another-model-is-not-removed")
}
