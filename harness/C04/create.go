package server

import (
	"context"
	"errors"
	"net/http"

	"github.com/gin-gonic/gin"

	"github.com/ollama/ollama/api"
	"github.com/ollama/ollama/types/model"
)

// C04, create: the real CreateHandler (name canonicalisation, the producer goroutine and its progress
// channel, error reporting, pruning of the replaced manifest's layers) with the expensive steps replaced
// by stubs with arbitrary outcomes: parseFromModel (load / pull the base model) and createModel (write
// layers and manifest; the stub replaces the named model in the store model).

var (
	vfCreateReq   api.CreateRequest
	vfMsgs        []any
	vfCreateCalls int
	vfBaseFailed  bool
)

func vfParseFromModel(ctx context.Context, name model.Name, fn func(api.ProgressResponse)) ([]*layerGGML, error) {
	fn(api.ProgressResponse{Status: "pulling manifest"})
	if verifChoice(2) == 1 {
		vfBaseFailed = true
		return nil, errors.New("pull model manifest: file does not exist")
	}
	return []*layerGGML{{Layer: Layer{MediaType: "application/vnd.ollama.image.model", Digest: vfDigest(0, false)}}}, nil
}

func vfCreateModel(r api.CreateRequest, name model.Name, baseLayers []*layerGGML, fn func(api.ProgressResponse)) error {
	vfCreateCalls++
	fn(api.ProgressResponse{Status: "writing manifest"})
	if verifChoice(2) == 1 {
		return errors.New("disk full")
	}
	m := &Manifest{SchemaVersion: 2}
	for _, l := range baseLayers {
		m.Layers = append(m.Layers, l.Layer)
	}
	vfStore[name] = m
	return nil
}

func vfStreamResponse(c *gin.Context, ch chan any) {
	for v := range ch {
		vfMsgs = append(vfMsgs, v)
	}
}

// VerifC04Create: create (or re-create) model "a" FROM model "b" over an arbitrary store.
func VerifC04Create(nMan int) {
	vfRemoved, vfMsgs, vfCreateCalls, vfBaseFailed = nil, nil, 0, false
	vfArbStore(nMan, false)
	target := model.Name{Host: "h", Namespace: "n", Model: "a", Tag: "t"}
	before := vfStore[target]
	vfCreateReq = api.CreateRequest{Model: "h/n/a:t", From: "h/n/b:t"}
	s := &Server{}
	s.CreateHandler(&gin.Context{Request: &http.Request{}})
	verifReach("create-returned")
	errs, succ, lastErr := 0, 0, -1
	for i, v := range vfMsgs {
		switch r := v.(type) {
		case gin.H:
			if _, ok := r["error"]; ok {
				errs++
				lastErr = i
			}
		case api.ProgressResponse:
			if r.Status == "success" {
				succ++
			}
		}
	}
	verifAssert(errs+succ >= 1, "create-reports-an-outcome")
	verifAssert(!(errs > 0 && succ > 0), "create-reports-both-an-error-and-success")
	if vfBaseFailed {
		verifReach("base-model-failed")
		verifAssert(errs > 0, "failure-to-load-the-base-model-is-reported")
		verifAssert(vfCreateCalls == 0, "model-is-written-although-its-base-model-could-not-be-loaded")
	}
	if errs > 0 {
		// a create that reported an error leaves the named model as it was, and removes nothing
		verifAssert(vfStore[target] == before, "failed-create-leaves-the-named-model-unchanged")
		verifAssert(lastErr == len(vfMsgs)-1, "nothing-is-reported-after-an-error")
	} else {
		verifReach("create-succeeded")
	}
	vfCheckRemovals("blob-still-referenced-by-another-model-is-not-removed")
}

// VerifC12CreateAfterCrash: an earlier create (or pull, or copy) of "a" was killed between truncating
// the manifest file and writing it: the file is there and empty. Repeating the create must work as if
// the name were free (the crash must not have wedged the name).
func VerifC12CreateAfterCrash(nMan int) {
	vfRemoved, vfMsgs, vfCreateCalls, vfBaseFailed = nil, nil, 0, false
	vfArbStore(nMan, false)
	target := model.Name{Host: "h", Namespace: "n", Model: "a", Tag: "t"}
	vfStatus = 0
	delete(vfStore, target) // an unreadable manifest is not listed
	vfTruncated = &target
	defer func() { vfTruncated = nil }()
	vfCreateReq = api.CreateRequest{Model: "h/n/a:t", From: "h/n/b:t"}
	s := &Server{}
	s.CreateHandler(&gin.Context{Request: &http.Request{}})
	verifReach("create-returned")
	errs, succ := 0, 0
	for _, v := range vfMsgs {
		switch r := v.(type) {
		case gin.H:
			if _, ok := r["error"]; ok {
				errs++
			}
		case api.ProgressResponse:
			if r.Status == "success" {
				succ++
			}
		}
	}
	verifAssert(vfStatus != 500 || errs+succ > 0, "repeat-of-an-interrupted-create-is-not-refused-because-of-the-empty-manifest")
	if !vfBaseFailed && vfCreateCalls > 0 && errs == 0 {
		verifReach("create-succeeded")
	}
	verifAssert(vfBaseFailed || vfCreateCalls == 1, "repeat-of-an-interrupted-create-reaches-the-model-writer")
	vfCheckRemovals("blob-still-referenced-by-another-model-is-not-removed")
}

// ---- copy: the real CopyHandler ----

var (
	vfCopyReq  api.CopyRequest
	vfCopySrc  model.Name
	vfCopyDst  model.Name
	vfCopied   bool
)

func vfCopyModel(src, dst model.Name) error {
	vfCopySrc, vfCopyDst, vfCopied = src, dst, true
	return nil
}

// VerifC04Copy: models h/n/a:t and h/n/b:t exist; a is copied to an arbitrary letter-case variant of
// h/n/b:t (an existing model), h/n/a:t (itself) or h/n/c:t (a new name).
func VerifC04Copy() {
	vfStore = map[model.Name]*Manifest{}
	for _, m := range []string{"a", "b"} {
		vfStore[model.Name{Host: "h", Namespace: "n", Model: m, Tag: "t"}] = &Manifest{SchemaVersion: 2}
	}
	base := []string{"h/n/a:t", "h/n/b:t", "h/n/c:t"}[verifChoice(3)]
	b := []byte(base)
	for i := range b {
		ch := b[i]
		if ch >= 'a' && ch <= 'z' && verifNondetBool("upper") {
			b[i] = ch - 32
		}
	}
	vfCopied, vfStatus = false, 200
	vfCopyReq = api.CopyRequest{Source: "h/n/a:t", Destination: string(b)}
	s := &Server{}
	s.CopyHandler(&gin.Context{})
	verifReach("copy-returned")
	verifAssert(vfStatus == 200, "copy-succeeds")
	if vfCopied {
		verifReach("copied")
		verifAssert(vfCopySrc == model.Name{Host: "h", Namespace: "n", Model: "a", Tag: "t"}, "copy-reads-the-source-model")
		for e := range vfStore {
			if e.EqualFold(vfCopyDst) {
				verifAssert(e == vfCopyDst, "copy-onto-another-spelling-of-an-existing-model-uses-its-stored-spelling")
			}
		}
	}
}
