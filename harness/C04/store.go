package server

import (
	"io"
	"io/fs"
	"os"
	"strings"

	"github.com/gin-gonic/gin"

	"github.com/ollama/ollama/api"
	"github.com/ollama/ollama/template"
	"github.com/ollama/ollama/types/model"
)

// C04 harness: the reference-scan and name-canonicalisation kernels of the model store, with the
// manifest scan (Manifests) replaced by an arbitrary set of manifests.

var vfMaxLayers = 1

var (
	vfStore   map[model.Name]*Manifest
	vfRemoved []string
)

func vfManifests(continueOnError bool) (map[model.Name]*Manifest, error) { return vfStore, nil }

func vfBlobsPath(digest string) (string, error) {
	if digest == "" {
		return "/models/blobs", nil
	}
	ok := len(digest) == 71 && strings.HasPrefix(digest, "sha256") && (digest[6] == ':' || digest[6] == '-')
	if !ok {
		return "", ErrInvalidDigestFormat
	}
	return "/models/blobs/" + strings.ReplaceAll(digest, ":", "-"), nil
}

func vfOsRemove(name string) error {
	vfRemoved = append(vfRemoved, name)
	return nil
}

const vfHex = "0123456789abcdef0123456789abcdef0123456789abcdef0123456789abcde" // 63 hex digits

func vfDigest(k int, dash bool) string {
	sep := ":"
	if dash {
		sep = "-"
	}
	return "sha256" + sep + vfHex + string("abc"[k])
}

// an arbitrary media type (one symbolic character): blobs may be shared under different media types
func vfMT() string {
	s := verifNondetString("mediatype", 1)
	verifAssume(len(s) == 1)
	return s
}

func vfBlobFile(k int) string { return "/models/blobs/sha256-" + vfHex + string("abc"[k]) }

// an arbitrary store: nMan manifests with up to 2 layers and an optional config over 3 digests
func vfArbStore(nMan int, dashSpelling bool) {
	vfStore = map[model.Name]*Manifest{}
	names := []model.Name{{Host: "h", Namespace: "n", Model: "a", Tag: "t"}, {Host: "h", Namespace: "n", Model: "b", Tag: "t"}, {Host: "h", Namespace: "n", Model: "c", Tag: "t"}}
	for i := 0; i < nMan; i++ {
		m := &Manifest{SchemaVersion: 2, filepath: "/models/manifests/" + names[i].Model} // as the real Manifests() fills it in
		nl := verifChoice(vfMaxLayers + 1)
		for j := 0; j < nl; j++ {
			m.Layers = append(m.Layers, Layer{MediaType: vfMT(), Digest: vfDigest(verifChoice(3), dashSpelling && verifChoice(2) == 1)})
		}
		if verifChoice(2) == 1 {
			m.Config = Layer{MediaType: vfMT(), Digest: vfDigest(verifChoice(3), dashSpelling && verifChoice(2) == 1)}
		}
		vfStore[names[i]] = m
	}
}

func vfReferenced(k int) bool {
	for _, m := range vfStore {
		for _, l := range m.Layers {
			if strings.HasSuffix(l.Digest, string("abc"[k])) {
				return true
			}
		}
		if m.Config.Digest != "" && strings.HasSuffix(m.Config.Digest, string("abc"[k])) {
			return true
		}
	}
	return false
}

func vfCheckRemovals(tag string) {
	for _, f := range vfRemoved {
		for k := 0; k < 3; k++ {
			if f == vfBlobFile(k) {
				verifAssert(!vfReferenced(k), tag)
			}
		}
	}
}

// removing the layers of a deleted / replaced model never removes a blob another manifest references
func VerifC04RemoveLayers(nMan int, dashSpelling int) {
	vfRemoved = nil
	vfArbStore(nMan, dashSpelling != 0)
	// the model being deleted: its manifest is already gone from the store
	old := &Manifest{}
	nl := verifChoice(vfMaxLayers + 2)
	for j := 0; j < nl; j++ {
		old.Layers = append(old.Layers, Layer{MediaType: vfMT(), Digest: vfDigest(verifChoice(3), false)})
	}
	if verifChoice(2) == 1 {
		old.Config = Layer{MediaType: vfMT(), Digest: vfDigest(verifChoice(3), false)}
	}
	err := old.RemoveLayers()
	verifReach("removed")
	verifAssert(err == nil, "remove-layers-no-error")
	if dashSpelling != 0 {
		// known-finding class: the other model spells the digest "sha256-..." (accepted by GetBlobsPath)
		vfCheckRemovals("blob-still-referenced-by-another-model-is-not-removed@dash-spelled-digest")
		return
	}
	vfCheckRemovals("blob-still-referenced-by-another-model-is-not-removed")
	// and every unreferenced layer of the deleted model is removed
	for _, l := range append(old.Layers, old.Config) {
		for k := 0; k < 3; k++ {
			if l.Digest == vfDigest(k, false) && !vfReferenced(k) {
				gone := false
				for _, f := range vfRemoved {
					if f == vfBlobFile(k) {
						gone = true
					}
				}
				verifAssert(gone, "orphaned-layer-is-removed")
			}
		}
	}
}

// deleteUnusedLayers (pull's pruning of the replaced manifest's layers)
func VerifC04DeleteUnused(nMan int) {
	vfRemoved = nil
	vfArbStore(nMan, false)
	del := map[string]struct{}{}
	for k := 0; k < 3; k++ {
		if verifChoice(2) == 1 {
			del[vfDigest(k, false)] = struct{}{}
		}
	}
	err := deleteUnusedLayers(del)
	verifReach("pruned")
	verifAssert(err == nil, "delete-unused-no-error")
	vfCheckRemovals("blob-still-referenced-by-another-model-is-not-removed")
}

// ---- startup prune: exactly the blobs that some manifest references stay ----

type vfDirEntry struct{ name string }

func (e vfDirEntry) Name() string               { return e.name }
func (e vfDirEntry) IsDir() bool                { return false }
func (e vfDirEntry) Type() fs.FileMode          { return 0 }
func (e vfDirEntry) Info() (fs.FileInfo, error) { return nil, nil }

var vfDir []os.DirEntry

func vfReadDir(name string) ([]os.DirEntry, error) { return vfDir, nil }

func VerifC04Prune(nMan int, dashSpelling int) {
	vfRemoved = nil
	vfArbStore(nMan, dashSpelling != 0)
	vfDir = nil
	present := [3]bool{}
	for k := 0; k < 3; k++ {
		if verifChoice(2) == 1 {
			present[k] = true
			vfDir = append(vfDir, vfDirEntry{"sha256-" + vfHex + string("abc"[k])})
		}
	}
	if verifChoice(2) == 1 {
		vfDir = append(vfDir, vfDirEntry{"sha256-" + vfHex + "a-partial"})
	}
	err := PruneLayers()
	verifReach("pruned")
	verifAssert(err == nil, "prune-no-error")
	tag := "referenced-blob-survives-startup-prune"
	if dashSpelling != 0 {
		tag += "@dash-spelled-digest"
	}
	vfCheckRemovals(tag)
	for k := 0; k < 3; k++ {
		if present[k] && !vfReferenced(k) {
			gone := false
			for _, f := range vfRemoved {
				if f == vfBlobFile(k) {
					gone = true
				}
			}
			verifAssert(gone, "unreferenced-blob-is-pruned")
		}
	}
	partialGone := true
	for _, e := range vfDir {
		if strings.HasSuffix(e.Name(), "-partial") {
			partialGone = false
			for _, f := range vfRemoved {
				if f == "/models/blobs/"+e.Name() {
					partialGone = true
				}
			}
		}
	}
	verifAssert(partialGone, "partial-download-is-pruned")
}

// ---- case-insensitive canonicalisation of incoming names ----

func vfPart(tag string, maxLen int) string {
	s := verifNondetString(tag, maxLen)
	verifAssume(len(s) == maxLen) // part lengths are fixed; what varies is the spelling (letters and their case)
	for i := 0; i < len(s); i++ {
		verifAssume(vfAlnum(s[i]))
	}
	return s
}

// pure helper: evaluated as one merged term, not as a cascade of branches
func vfAlnum(c byte) bool {
	return c >= 'a' && c <= 'z' || c >= 'A' && c <= 'Z' || c >= '0' && c <= '9'
}

func vfName(tag string, maxLen int) model.Name {
	return model.Name{Host: vfPart(tag+".host", maxLen), Namespace: vfPart(tag+".ns", maxLen), Model: vfPart(tag+".model", maxLen), Tag: vfPart(tag+".tag", maxLen)}
}

func vfConsistent(a, b string) bool { return !strings.EqualFold(a, b) || a == b }

func vfNamesConsistent(a, b model.Name) bool {
	return vfConsistent(a.Host, b.Host) && vfConsistent(a.Namespace, b.Namespace) && vfConsistent(a.Model, b.Model) && vfConsistent(a.Tag, b.Tag)
}

// for every existing set of nExisting names whose parts are pairwise case-consistent and every incoming
// name: the result is a case variant of the input, equals an existing name when one matches in full, and
// keeps the set case-consistent (so no two listed models can come to differ only by letter case)
func VerifC04ExistingName(nExisting int, maxLen int) {
	vfStore = map[model.Name]*Manifest{}
	var es []model.Name
	for i := 0; i < nExisting; i++ {
		e := vfName("existing", maxLen)
		for _, o := range es {
			verifAssume(vfNamesConsistent(e, o))
			verifAssume(e != o)
		}
		es = append(es, e)
		vfStore[e] = &Manifest{}
	}
	n := vfName("incoming", maxLen)
	r, err := getExistingName(n)
	verifReach("canonicalised")
	verifAssert(err == nil, "no-error")
	verifAssert(r.EqualFold(n), "result-is-a-case-variant-of-the-input")
	for _, e := range es {
		if e.EqualFold(n) {
			verifAssert(r == e, "existing-model-is-addressed-by-its-stored-spelling")
		}
		verifAssert(vfNamesConsistent(r, e), "store-stays-case-consistent")
	}
}

// ---- create: replacing the template of the model being created ----

var vfBlobPresent [3]bool

// replacement for NewLayer (temp file, hashing, rename): the new content hashes to an arbitrary one of
// the three digests - possibly the digest of a layer that is being replaced - and is in the store afterwards
func vfNewLayer(r io.Reader, mediatype string) (Layer, error) {
	k := verifChoice(3)
	vfRemoved = append(vfRemoved, "+"+vfBlobFile(k))
	return Layer{MediaType: mediatype, Digest: vfDigest(k, false), Size: 1}, nil
}

func vfParseTemplate(s string) (*template.Template, error) { return nil, nil }

var vfMediaTypes = []string{"application/vnd.ollama.image.template", "application/vnd.ollama.image.system", "application/vnd.ollama.image.model"}

// VerifC04SetTemplate: for every store, every list of base layers with distinct blobs (present in the
// store) and every new template content: after setTemplate every layer of the list it returns is in the
// store, and no blob that a manifest references has been removed.
func VerifC04SetTemplate(nMan int, which int) {
	vfRemoved = nil
	vfArbStore(nMan, false)
	vfBlobPresent = [3]bool{true, true, true}
	var layers []Layer
	used := [3]bool{}
	n := verifChoice(3)
	for i := 0; i < n; i++ {
		k := verifChoice(3)
		verifAssume(!used[k])
		used[k] = true
		layers = append(layers, Layer{MediaType: vfMediaTypes[verifChoice(3)], Digest: vfDigest(k, false), Size: 1})
	}
	var out []Layer
	var err error
	if which == 0 {
		out, err = setTemplate(layers, "{{ .Prompt }}")
	} else {
		out, err = setSystem(layers, "you are helpful")
	}
	verifReach("layer-replaced")
	verifAssert(err == nil, "no-error")
	// replay the effect log: a removal makes the blob absent, a later store makes it present again
	for _, f := range vfRemoved {
		for k := 0; k < 3; k++ {
			if f == vfBlobFile(k) {
				verifAssert(!vfReferenced(k), "blob-still-referenced-by-another-model-is-not-removed")
				vfBlobPresent[k] = false
			}
			if f == "+"+vfBlobFile(k) {
				vfBlobPresent[k] = true
			}
		}
	}
	for _, l := range out {
		for k := 0; k < 3; k++ {
			if l.Digest == vfDigest(k, false) {
				verifAssert(vfBlobPresent[k], "layer-of-the-model-being-created-is-in-the-store")
			}
		}
	}
}

// ---- delete: the real DeleteHandler over the model store ----

var (
	vfDeleteName string
	vfStatus     int
	vfEffects    []string // "M:<model>" manifest file removed, "B:<k>" blob k removed - in order
)

func vfShouldBindJSON(c *gin.Context, obj any) error {
	switch r := obj.(type) {
	case *api.DeleteRequest:
		r.Model = vfDeleteName
	case *api.CreateRequest:
		*r = vfCreateReq
	case *api.CopyRequest:
		*r = vfCopyReq
	}
	return nil
}

func vfGinJSON4(c *gin.Context, code int, obj any)      { vfStatus = code }
func vfGinAbortJSON(c *gin.Context, code int, obj any) { vfStatus = code }

// vfTruncated: the manifest file of this name was left empty by a crash (truncated, never written)
var vfTruncated *model.Name

func vfParseNamedManifest(n model.Name) (*Manifest, error) {
	if vfTruncated != nil && *vfTruncated == n {
		return nil, io.EOF // what json.Decode reports for an empty file
	}
	m := vfStore[n]
	if m == nil {
		return nil, os.ErrNotExist
	}
	cp := *m
	cp.filepath = "/models/manifests/" + n.Model
	return &cp, nil
}

func vfGetManifestPath() (string, error) { return "/models/manifests", nil }
func vfPruneDirectory(path string) error { return nil }

// os.Remove for the delete harness: a manifest file disappears from the store model, a blob is recorded
func vfOsRemoveD(name string) error {
	if strings.HasPrefix(name, "/models/manifests/") {
		mdl := name[len("/models/manifests/"):]
		for n := range vfStore {
			if n.Model == mdl {
				delete(vfStore, n)
			}
		}
		vfEffects = append(vfEffects, "M:"+mdl)
		return nil
	}
	vfRemoved = append(vfRemoved, name)
	for k := 0; k < 3; k++ {
		if name == vfBlobFile(k) {
			vfEffects = append(vfEffects, "B:"+string("abc"[k]))
		}
	}
	return nil
}

// VerifC04Delete: an arbitrary store of nMan models sharing blobs in arbitrary ways; DELETE of one of them
// (or of a name that does not exist). Afterwards the model is gone, no blob that a remaining model
// references has been removed, every orphaned blob of the deleted model has; and (C12) after EVERY prefix of
// the handler's file-system effects each model still listed has all its blobs.
func VerifC04Delete(nMan int) {
	vfRemoved, vfEffects, vfStatus = nil, nil, 200
	vfArbStore(nMan, false)
	// snapshot: what each model referenced before the request
	type ref struct {
		mdl  string
		uses [3]bool
	}
	var before []ref
	for n, m := range vfStore {
		r := ref{mdl: n.Model}
		for _, l := range append(append([]Layer(nil), m.Layers...), m.Config) {
			for k := 0; k < 3; k++ {
				if l.Digest == vfDigest(k, false) {
					r.uses[k] = true
				}
			}
		}
		before = append(before, r)
	}
	victim := string("abcd"[verifChoice(nMan+1)]) // the last choice names a model that is not in the store
	vfDeleteName = "h/n/" + victim + ":t"
	s := &Server{}
	s.DeleteHandler(&gin.Context{})
	verifReach("delete-returned")
	existed := false
	for _, r := range before {
		if r.mdl == victim {
			existed = true
		}
	}
	if !existed {
		verifAssert(vfStatus == 404, "deleting-an-unknown-model-is-not-found")
		verifAssert(len(vfEffects) == 0, "deleting-an-unknown-model-changes-nothing")
		return
	}
	verifReach("model-deleted")
	verifAssert(vfStatus == 200, "delete-succeeds")
	for n := range vfStore {
		verifAssert(n.Model != victim, "deleted-model-is-no-longer-listed")
	}
	vfCheckRemovals("blob-still-referenced-by-another-model-is-not-removed")
	// replay the effects: after every prefix every model still listed has all its blobs
	listed := map[string]bool{}
	for _, r := range before {
		listed[r.mdl] = true
	}
	present := [3]bool{true, true, true}
	for _, e := range vfEffects {
		if e[0] == 'M' {
			listed[e[2:]] = false
		} else {
			present[int(e[2]-'a')] = false
		}
		for _, r := range before {
			if listed[r.mdl] {
				for k := 0; k < 3; k++ {
					if r.uses[k] {
						verifAssert(present[k], "at-every-crash-point-listed-model-has-every-layer")
					}
				}
			}
		}
	}
	// orphans of the deleted model are gone
	for _, r := range before {
		if r.mdl == victim {
			for k := 0; k < 3; k++ {
				if r.uses[k] && !vfReferenced(k) {
					verifAssert(!present[k], "orphaned-layer-is-removed")
				}
			}
		}
	}
}
