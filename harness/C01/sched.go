package server

import (
	"context"
	"errors"
	"time"

	"github.com/gin-gonic/gin"

	"github.com/ollama/ollama/api"
	"github.com/ollama/ollama/discover"
	"github.com/ollama/ollama/envconfig"
	"github.com/ollama/ollama/fs/ggml"
	"github.com/ollama/ollama/llm"
	"github.com/ollama/ollama/types/model"
)

// C01 / C02 / C11 harness: the real scheduler (InitScheduler, GetRunner, Run, processPending,
// processCompleted, useLoadedRunner, load, needsReload, findRunnerToUnload, expireRunner, unload …)
// driven by client goroutines; everything the Scheduler type makes replaceable is a fake whose
// outcomes (load ok/fail, ping ok/fail, fit yes/no) are chosen by the solver. The oracles sit in
// the fakes, i.e. at the observation points the properties name.

// ---- request context controlled by the harness ----

type vfCtx struct {
	done chan struct{}
	err  error
}

func newVfCtx() *vfCtx                             { return &vfCtx{done: make(chan struct{})} }
func (c *vfCtx) Done() <-chan struct{}             { return c.done }
func (c *vfCtx) Err() error                        { return c.err }
func (c *vfCtx) Deadline() (time.Time, bool)       { return time.Time{}, false }
func (c *vfCtx) Value(any) any                     { return nil }
func (c *vfCtx) cancel() {
	if c.err == nil {
		c.err = context.Canceled
		close(c.done)
	}
}

// replacement for context.WithTimeout inside needsReload: no timeout is modelled, the ping outcome is arbitrary
func vfWithTimeout(parent context.Context, d time.Duration) (context.Context, context.CancelFunc) {
	return parent, func() {}
}

// ---- fake llm.LlamaServer ----

type vfSrv struct {
	path   string
	opts   api.Options
	users   int
	closing int
	closes  int
}

var (
	vfUseGPU        bool
	vfUnloadClients bool
	vfEarlyCancel   bool
	vfDrain         chan struct{}
	vfServers    []*vfSrv
	vfMaxRunners int
	vfReplies    []int
	vfGot        []*vfSrv // the runner each request was handed
	vfGotBig     []bool
	vfGotKA      []int
	vfPingFailed bool
	vfNumGPU     = 1
	vfCancelled  []bool
)

func (v *vfSrv) Ping(ctx context.Context) error {
	if verifChoice(2) == 1 {
		vfPingFailed = true
		return errors.New("ping failed")
	}
	return nil
}

func (v *vfSrv) WaitUntilRunning(ctx context.Context) error {
	verifYield() // loading takes time: other goroutines may run
	if verifChoice(2) == 1 {
		return errors.New("load failed")
	}
	return nil
}

func (v *vfSrv) Close() error {
	verifNote("Close " + v.path)
	verifAssert(v.users == 0, "runner-closed-while-a-request-uses-it")
	verifAssert(v.closing == 0, "runner-closed-twice")
	v.closing++
	verifYield() // stopping the runner process takes time: it stays alive (and counts as live) meanwhile
	v.closes++
	return nil
}

func (v *vfSrv) Completion(ctx context.Context, req llm.CompletionRequest, fn func(llm.CompletionResponse)) error {
	return nil
}
func (v *vfSrv) Embedding(ctx context.Context, input string) ([]float32, error)   { return nil, nil }
func (v *vfSrv) Tokenize(ctx context.Context, content string) ([]int, error)      { return nil, nil }
func (v *vfSrv) Detokenize(ctx context.Context, tokens []int) (string, error)     { return "", nil }
func (v *vfSrv) EstimatedVRAM() uint64                                            { return 10 }
func (v *vfSrv) EstimatedTotal() uint64                                           { return 10 }
func (v *vfSrv) EstimatedVRAMByGPU(gpuID string) uint64                           { return 10 }

func vfLive() int {
	n := 0
	for _, s := range vfServers {
		if s.closes == 0 {
			n++
		}
	}
	return n
}

func vfNewServer(gpus discover.GpuInfoList, modelPath string, f *ggml.GGML, adapters []string, projectors []string, opts api.Options, numParallel int) (llm.LlamaServer, error) {
	// C11: limit and one-runner-per-model, observed where runners are started
	verifAssert(vfLive() < vfMaxRunners, "runner-started-beyond-the-loaded-limit")
	for _, s := range vfServers {
		if s.closes == 0 && s.path == modelPath {
			verifAssert(false, "second-live-runner-for-one-model")
		}
	}
	verifNote("NewServer " + modelPath)
	// C11: the context a runner is started with is the requested context times its parallelism (the relation
	// needsReload relies on when it judges compatibility)
	verifAssert(numParallel >= 1, "runner-started-with-parallelism-below-one")
	if numParallel >= 1 {
		verifAssert(opts.NumCtx == vfBaseCtx*numParallel || opts.NumCtx == 8192*numParallel, "runner-context-is-requested-context-times-parallel")
	}
	srv := &vfSrv{path: modelPath, opts: opts}
	vfServers = append(vfServers, srv)
	return srv, nil
}

// replacement for llm.PredictServerFit: arbitrary answer
func vfPredictServerFit(allGpus discover.GpuInfoList, f *ggml.GGML, adapters, projectors []string, opts api.Options, numParallel int) (bool, uint64) {
	return verifChoice(2) == 1, 10
}

// replacement for (*runnerRef).waitForVRAMRecovery in the multi-GPU jobs (its polling branch queries the real
// GPUs through cgo): recovery is reported at once
func vfWaitVRAM(runner *runnerRef) chan any {
	finished := make(chan any, 1)
	finished <- struct{}{}
	return finished
}

// replacements
func vfLoadModel(model string, maxArraySize int) (*ggml.GGML, error) { return nil, nil }
func vfCheckCapabilities(m *Model, want ...model.Capability) error     { return nil }
func vfKeepAlive() time.Duration                                       { return 5 * time.Minute }
func vfEstimate(gpus []discover.GpuInfo, f *ggml.GGML, projectors []string, opts api.Options, numParallel int) llm.MemoryEstimate {
	// arbitrary total size: the new model fits next to the loaded ones or not (solver's choice)
	if verifChoice(2) == 1 {
		return llm.MemoryEstimate{TotalSize: 1 << 40}
	}
	return llm.MemoryEstimate{TotalSize: 1}
}

var vfBaseCtx = api.DefaultOptions().NumCtx

var vfModels = []*Model{{ModelPath: "/m/a", ShortName: "a"}, {ModelPath: "/m/b", ShortName: "b"}, {ModelPath: "/m/c", ShortName: "c"}}

// replacements used by the real Server.scheduleRunner
func vfGetModel(name string) (*Model, error) {
	for _, m := range vfModels {
		if m.ShortName == name {
			return m, nil
		}
	}
	return nil, errors.New("model not found")
}

func vfModelOptions(m *Model, requestOpts map[string]any) (api.Options, error) {
	opts := api.DefaultOptions()
	opts.NumGPU = 0 // CPU placement path
	if vfUseGPU {
		opts.NumGPU = -1
	}
	if requestOpts["big"] != nil {
		opts.NumCtx = 8192 // incompatible with a runner loaded with the default context
	}
	// an explicit use_mmap: the API decodes it into a fresh pointer for every request (equal values,
	// different pointers)
	mm := true
	opts.UseMMap = &mm
	return opts, nil
}

// one API request, through the real Server.scheduleRunner (the handler side of the protocol)
func vfClient(s *Scheduler, i int, nModels int, done chan int) {
	m := vfModels[verifChoice(nModels)]
	if vfUnloadClients && verifChoice(2) == 1 {
		// explicit unload (keep_alive = 0 without a prompt)
		verifNote("explicit-unload " + m.ModelPath)
		s.expireRunner(m)
		vfReplies[i]++
		done <- i
		return
	}
	reqOpts := map[string]any{}
	bigCtx := verifChoice(2) == 1
	if bigCtx {
		reqOpts["big"] = true
	}
	var ka *api.Duration
	kaChoice := verifChoice(3)
	vfGotBig[i], vfGotKA[i] = bigCtx, kaChoice
	switch kaChoice {
	case 1:
		ka = &api.Duration{Duration: 0} // unload when done
	case 2:
		ka = &api.Duration{Duration: time.Minute}
	}
	verifNote("request model=" + m.ShortName)
	if bigCtx {
		verifNote("request bigctx")
	}
	if kaChoice == 1 {
		verifNote("request keepalive=0")
	}
	ctx := newVfCtx()
	reported := false
	var using *vfSrv // the runner this request is currently using ("in progress" ends at cancellation)
	if vfEarlyCancel && verifChoice(2) == 1 {
		// the caller goes away at some point while the request is being scheduled; its handler
		// may stay blocked (a cancelled request receives AT MOST one reply), so the harness does
		// not wait for it
		go func() {
			verifNote("early-cancel")
			vfCancelled[i] = true
			if using != nil {
				using.users--
				using = nil
			}
			ctx.cancel()
			if !reported {
				reported = true
				done <- i
			}
		}()
	}
	srv := &Server{sched: s}
	llama, _, opts, err := srv.scheduleRunner(ctx, m.ShortName, nil, reqOpts, ka)
	vfReplies[i]++
	if err == nil {
		verifNote("got-runner")
		fake, _ := llama.(*vfSrv)
		verifAssert(fake != nil, "runner-handed-out-without-server")
		if fake != nil && !vfCancelled[i] {
			verifAssert(fake.closes == 0, "closed-runner-handed-to-a-request")
			verifAssert(fake.path == m.ModelPath, "runner-is-for-the-requested-model")
			if bigCtx {
				verifAssert(fake.opts.NumCtx >= 8192 && opts.NumCtx >= 8192, "incompatible-options-served-by-a-runner-started-with-them")
			}
			fake.users++
			using = fake
			vfGot[i] = fake
			verifYield() // the request is in progress
			if using != nil {
				using.users--
				using = nil
			}
		}
	} else {
		verifNote("got-error")
	}
	ctx.cancel()
	if !reported {
		reported = true
		done <- i
	}
}

// replacement for (*gin.Context).JSON: records what "ollama ps" would report
var vfPsReports int

func vfGinJSON(c *gin.Context, code int, obj any) {
	vfPsReports++
	if r, ok := obj.(api.ProcessResponse); ok {
		for _, m := range r.Models {
			verifAssert(m.Name != "", "ps-entry-has-a-model")
		}
	}
}

// VerifSched: nModels models, nReq concurrent requests, loaded-runner limit, queue length.
func VerifSched(nModels int, nReq int, maxRunners int, queue int, flags int) {
	VerifSchedCfg(nModels, nReq, maxRunners, queue, flags, 1, 1)
}

// VerifSchedCfg: as VerifSched, with the GPU inventory size and the OLLAMA_NUM_PARALLEL setting (0 = automatic).
func VerifSchedCfg(nModels int, nReq int, maxRunners int, queue int, flags int, nGPU int, numParallel int) {
	vfNumGPU = nGPU
	vfServers, vfMaxRunners = nil, maxRunners
	vfUnloadClients, vfEarlyCancel, vfUseGPU = flags&1 != 0, flags&2 != 0, flags&4 != 0
	vfDrain = make(chan struct{})
	vfReplies = make([]int, nReq)
	vfGot, vfGotBig, vfGotKA, vfPingFailed = make([]*vfSrv, nReq), make([]bool, nReq), make([]int, nReq), false
	vfCancelled = make([]bool, nReq)
	envconfig.MaxRunners = func() uint { return uint(maxRunners) }
	envconfig.MaxQueue = func() uint { return uint(queue) }
	envconfig.NumParallel = func() uint { return uint(numParallel) }
	envconfig.SchedSpread = func() bool { return false }

	ctx := newVfCtx()
	s := InitScheduler(ctx)
	s.newServerFn = vfNewServer
	s.getCpuFn = func() discover.GpuInfoList {
		l := discover.GpuInfoList{{Library: "cpu"}}
		l[0].FreeMemory, l[0].TotalMemory = 1<<30, 1<<30
		return l
	}
	s.getGpuFn = func() discover.GpuInfoList {
		// GPUs of a library that needs no VRAM-recovery polling
		l := discover.GpuInfoList{{Library: "metal", ID: "0"}, {Library: "metal", ID: "1"}}[:vfNumGPU]
		for i := range l {
			l[i].FreeMemory, l[i].TotalMemory = 1<<30, 1<<30
		}
		return l
	}
	s.reschedDelay = 0
	s.Run(ctx)

	if flags&16 != 0 {
		// a concurrent "ollama ps": the real PsHandler at a scheduler-chosen moment
		go func() {
			srv := &Server{sched: s}
			srv.PsHandler(&gin.Context{})
		}()
	}
	done := make(chan int, nReq)
	if flags&8 != 0 {
		// sequential history: each request starts after the previous one has finished
		for i := 0; i < nReq; i++ {
			go vfClient(s, i, nModels, done)
			<-done
		}
	} else {
		for i := 0; i < nReq; i++ {
			go vfClient(s, i, nModels, done)
		}
		for i := 0; i < nReq; i++ {
			<-done
		}
	}
	verifReach("all-requests-answered")
	if flags&32 != 0 {
		// C11 reuse (sequential history, no delays: keep-alive timers have not fired yet): a request for
		// a model that an earlier request left loaded, with the same options, is served by that runner
		for i := 1; i < nReq; i++ {
			a, b := vfGot[i-1], vfGot[i]
			if a != nil && b != nil && a.path == b.path && vfGotBig[i-1] == vfGotBig[i] && vfGotKA[i-1] != 1 && !vfPingFailed {
				verifAssert(a == b, "compatible-request-served-by-the-loaded-runner")
			}
		}
	}
	// all requests have finished: let keep-alive periods elapse and the loops drain
	verifQuiesce()
	close(vfDrain)
	for i := range vfReplies {
		if vfCancelled[i] {
			verifAssert(vfReplies[i] <= 1, "at-most-one-reply-to-a-cancelled-request")
		} else {
			verifAssert(vfReplies[i] == 1, "exactly-one-reply")
		}
	}
	// known-finding class: at quiescence the expiry queue is still full - its only receiver, the completed
	// loop, is blocked sending its own expiry event into it, so nothing it owes can happen any more
	suffix := ""
	if cap(s.expiredCh) > 0 && len(s.expiredCh) == cap(s.expiredCh) {
		suffix = "@completed-loop-blocked-on-its-own-expiry-event"
	}
	s.loadedMu.Lock()
	verifAssert(len(s.loaded) == 0, "nothing-reported-loaded-after-drain"+suffix)
	s.loadedMu.Unlock()
	for _, srv := range vfServers {
		verifAssert(srv.closes == 1, "every-started-runner-shut-down-after-drain"+suffix)
	}
	verifReach("drained")
}

// every model fits next to the loaded ones (the evict-idle job: room is needed for the limit only)
func vfEstimateFits(gpus []discover.GpuInfo, f *ggml.GGML, projectors []string, opts api.Options, numParallel int) llm.MemoryEstimate {
	return llm.MemoryEstimate{TotalSize: 1}
}

// VerifC11EvictIdle: loaded-runner limit 2, three models. Request 0 (model a; keep-alive 0, 1 minute or
// default) obtains its runner and HOLDS it; request 1 (model b) runs and finishes, leaving b idle;
// request 2 (model c) arrives: room has to be made, b's runner is idle - the request must be served by
// evicting b, without waiting for the busy runner.
func VerifC11EvictIdle() {
	vfNumGPU = 1
	vfServers, vfMaxRunners = nil, 2
	vfUnloadClients, vfEarlyCancel, vfUseGPU = false, false, false
	vfDrain = make(chan struct{})
	vfReplies = make([]int, 3)
	vfGot, vfGotBig, vfGotKA, vfPingFailed = make([]*vfSrv, 3), make([]bool, 3), make([]int, 3), false
	vfCancelled = make([]bool, 3)
	envconfig.MaxRunners = func() uint { return 2 }
	envconfig.MaxQueue = func() uint { return 4 }
	envconfig.NumParallel = func() uint { return 1 }
	envconfig.SchedSpread = func() bool { return false }
	ctx := newVfCtx()
	s := InitScheduler(ctx)
	s.newServerFn = vfNewServer
	s.getCpuFn = func() discover.GpuInfoList {
		l := discover.GpuInfoList{{Library: "cpu"}}
		l[0].FreeMemory, l[0].TotalMemory = 1<<30, 1<<30
		return l
	}
	s.getGpuFn = s.getCpuFn
	s.reschedDelay = 0
	s.Run(ctx)
	srv := &Server{sched: s}

	kas := []*api.Duration{{Duration: 0}, {Duration: time.Minute}, nil}
	ctx0 := newVfCtx()
	r0, _, _, err0 := srv.scheduleRunner(ctx0, "a", nil, map[string]any{}, kas[verifChoice(3)])
	if err0 != nil {
		return // load / ping failures are other jobs' subject
	}
	holder, _ := r0.(*vfSrv)
	holder.users++
	ctx1 := newVfCtx()
	r1, _, _, err1 := srv.scheduleRunner(ctx1, "b", nil, map[string]any{}, kas[1])
	if err1 != nil {
		return
	}
	idle, _ := r1.(*vfSrv)
	verifNote("second-request-finishing")
	ctx1.cancel() // request 1 is finished: b is idle, inside its keep-alive
	verifHoldTimers(true)
	verifQuiesce() // the finish event has been processed; no time passes
	verifReach("one-busy-one-idle")
	ctx2 := newVfCtx()
	verifHoldTimers(true) // no keep-alive period elapses while the third request is being served
	verifNote("third-request")
	r2, _, _, err2 := srv.scheduleRunner(ctx2, "c", nil, map[string]any{}, kas[1])
	verifHoldTimers(false)
	if err2 == nil {
		verifReach("third-model-served")
		third, _ := r2.(*vfSrv)
		verifAssert(third != nil && third.path == "/m/c", "runner-is-for-the-requested-model")
		verifAssert(holder.closing == 0, "making-room-leaves-the-busy-runner-alone")
		verifAssert(idle.closing > 0, "making-room-evicts-the-idle-runner")
	}
	ctx2.cancel()
	holder.users--
	ctx0.cancel()
}

// VerifC01HoldAndCancel: request 0 obtains the runner of model a and HOLDS it; request 1 asks for the
// same model and its caller goes away at a scheduler-chosen moment (before, during or after the
// hand-over). Whatever happens to request 1, the runner request 0 is using stays open and the
// scheduler's reference count for it equals the number of requests in progress on it.
func VerifC01HoldAndCancel(hold int) {
	vfNumGPU = 1
	vfServers, vfMaxRunners = nil, 1
	vfUnloadClients, vfEarlyCancel, vfUseGPU = false, false, false
	vfDrain = make(chan struct{})
	vfReplies = make([]int, 2)
	vfGot, vfGotBig, vfGotKA, vfPingFailed = make([]*vfSrv, 2), make([]bool, 2), make([]int, 2), false
	vfCancelled = make([]bool, 2)
	envconfig.MaxRunners = func() uint { return 1 }
	envconfig.MaxQueue = func() uint { return 4 }
	envconfig.NumParallel = func() uint { return 1 }
	envconfig.SchedSpread = func() bool { return false }
	ctx := newVfCtx()
	s := InitScheduler(ctx)
	s.newServerFn = vfNewServer
	s.getCpuFn = func() discover.GpuInfoList {
		l := discover.GpuInfoList{{Library: "cpu"}}
		l[0].FreeMemory, l[0].TotalMemory = 1<<30, 1<<30
		return l
	}
	s.getGpuFn = s.getCpuFn
	s.reschedDelay = 0
	s.Run(ctx)
	srv := &Server{sched: s}
	kas := []*api.Duration{{Duration: 0}, {Duration: time.Minute}, nil}

	ctx0 := newVfCtx()
	r0, _, _, err0 := srv.scheduleRunner(ctx0, "a", nil, map[string]any{}, kas[verifChoice(3)])
	if err0 != nil {
		return
	}
	holder, _ := r0.(*vfSrv)
	inProgress := 0
	if hold != 0 {
		holder.users++
		inProgress = 1
		verifReach("first-request-in-progress")
	} else {
		// the first request is over: the runner is idle, inside its keep-alive period (if it has one)
		ctx0.cancel()
		verifHoldTimers(true)
		verifQuiesce()
		verifReach("first-request-finished")
	}

	ctx1 := newVfCtx()
	second := 0 // requests in progress besides the holder
	done := make(chan struct{}, 2)
	go func() {
		verifNote("caller-of-the-second-request-goes-away")
		ctx1.cancel()
		done <- struct{}{}
	}()
	go func() {
		r1, _, _, err1 := srv.scheduleRunner(ctx1, "a", nil, map[string]any{}, kas[verifChoice(3)])
		if err1 == nil && r1 != nil {
			verifNote("second-request-got-the-runner")
		}
		ctx1.cancel() // the second request is over (served or not)
		done <- struct{}{}
	}()
	<-done
	verifHoldTimers(true)
	verifQuiesce() // everything the cancellation set off has happened; no keep-alive period has elapsed
	verifReach("second-request-over")
	if hold != 0 {
		verifAssert(holder.closing == 0, "runner-closed-while-a-request-uses-it")
	}
	s.loadedMu.Lock()
	if r := s.loaded["/m/a"]; r != nil && r.llama == llm.LlamaServer(holder) {
		r.refMu.Lock()
		verifAssert(r.refCount == uint(inProgress+second), "reference-count-equals-the-requests-in-progress")
		r.refMu.Unlock()
	}
	s.loadedMu.Unlock()
	verifHoldTimers(false)
	if hold != 0 {
		holder.users--
		ctx0.cancel()
	}
	// everything is over: keep-alive periods elapse, the scheduler drains
	verifQuiesce()
	s.loadedMu.Lock()
	verifAssert(len(s.loaded) == 0, "nothing-reported-loaded-after-drain")
	s.loadedMu.Unlock()
	for _, srv := range vfServers {
		verifAssert(srv.closes == 1, "every-started-runner-shut-down-after-drain")
	}
	verifReach("drained")
}

// VerifC02LateFinish: request 0's load FAILS (it is answered with the error); its context ends only
// later - after request 1 for the same model has been given a fresh runner and is using it. The late
// end of a request that never got a runner must not be charged to the runner of another request.
func VerifC02LateFinish() {
	vfNumGPU = 1
	vfServers, vfMaxRunners = nil, 1
	vfUnloadClients, vfEarlyCancel, vfUseGPU = false, false, false
	vfDrain = make(chan struct{})
	vfReplies = make([]int, 2)
	vfGot, vfGotBig, vfGotKA, vfPingFailed = make([]*vfSrv, 2), make([]bool, 2), make([]int, 2), false
	vfCancelled = make([]bool, 2)
	envconfig.MaxRunners = func() uint { return 1 }
	envconfig.MaxQueue = func() uint { return 4 }
	envconfig.NumParallel = func() uint { return 1 }
	envconfig.SchedSpread = func() bool { return false }
	ctx := newVfCtx()
	s := InitScheduler(ctx)
	s.newServerFn = vfNewServer
	s.getCpuFn = func() discover.GpuInfoList {
		l := discover.GpuInfoList{{Library: "cpu"}}
		l[0].FreeMemory, l[0].TotalMemory = 1<<30, 1<<30
		return l
	}
	s.getGpuFn = s.getCpuFn
	s.reschedDelay = 0
	s.Run(ctx)
	srv := &Server{sched: s}
	kas := []*api.Duration{{Duration: 0}, {Duration: time.Minute}, nil}

	ctx0 := newVfCtx()
	_, _, _, err0 := srv.scheduleRunner(ctx0, "a", nil, map[string]any{}, kas[verifChoice(3)])
	if err0 == nil {
		ctx0.cancel()
		return // only the failed first request is this job's subject
	}
	verifReach("first-request-failed")
	verifHoldTimers(true)
	verifQuiesce() // the runner that failed to load has been shut down
	ctx1 := newVfCtx()
	r1, _, _, err1 := srv.scheduleRunner(ctx1, "a", nil, map[string]any{}, kas[verifChoice(3)])
	if err1 != nil {
		ctx0.cancel()
		ctx1.cancel()
		return
	}
	holder, _ := r1.(*vfSrv)
	holder.users++
	verifReach("second-request-in-progress")
	ctx0.cancel() // the failed request's caller goes away now
	verifQuiesce()
	verifAssert(holder.closing == 0, "runner-closed-while-a-request-uses-it")
	s.loadedMu.Lock()
	if r := s.loaded["/m/a"]; r != nil && r.llama == llm.LlamaServer(holder) {
		r.refMu.Lock()
		verifAssert(r.refCount == 1, "reference-count-equals-the-requests-in-progress")
		r.refMu.Unlock()
	} else {
		verifAssert(false, "runner-in-use-is-registered")
	}
	s.loadedMu.Unlock()
	verifHoldTimers(false)
	holder.users--
	ctx1.cancel()
	verifQuiesce()
	s.loadedMu.Lock()
	verifAssert(len(s.loaded) == 0, "nothing-reported-loaded-after-drain")
	s.loadedMu.Unlock()
	for _, srv := range vfServers {
		verifAssert(srv.closes == 1, "every-started-runner-shut-down-after-drain")
	}
	verifReach("drained")
}
