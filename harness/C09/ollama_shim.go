package ollama

// Overlay-only constructors so that a harness in another package can build registry errors with a
// chosen status (nothing is committed to the repository).
func VerifRegistryError(status int) error { return &Error{status: status, Code: "ERR"} }
