package ollama

import (
	"context"
	"errors"
	"io"
	"iter"
	"net/http"

	"github.com/ollama/ollama/server/internal/cache/blob"
)

// C09 (registry client, pull): the REAL Registry.Pull - cached-layer test, Chunked/Put per chunk in
// errgroup goroutines, 'v1 pull chunksum' markers, byte counters and ErrIncomplete, manifest stored
// and linked last - over a MODEL of the blob cache that keeps, per blob file, its length and which of
// its bytes hold the right content. The registry is a stub with arbitrary behaviour: any chunk plan
// (one chunk or two, split anywhere), a broken chunk list, and per request an error, a short body, a
// corrupted body or the right bytes. Two attempts are made in a row (the retry of handlePull).

const vfLayerSize = 4

type vfFile struct {
	exists bool
	length int64
	ok     [vfLayerSize]bool // byte i holds the right content
	whole  bool              // written by Put as a whole (markers, manifest)
}

type vfChunkerState struct {
	d    blob.Digest
	size int64
}

var (
	vfFiles     map[blob.Digest]*vfFile
	vfChunkers  map[*blob.Chunker]*vfChunkerState
	vfLayers    []*Layer
	vfChunkDig  []blob.Digest
	vfLinked    int
	vfHashSeen  []string
	vfManifest  []byte
	vfHoleAtStart bool
	vfReduced     bool // fewer fault kinds (multi-attempt / multi-layer jobs)
	vfNonCovering bool // the registry streamed a chunk list that does not cover a layer
)

func vfDig(i int) blob.Digest {
	const hex = "0123456789abcdef"
	s := "sha256:"
	for k := 0; k < 64; k++ {
		s += string(hex[(i+k)%16])
	}
	d, err := blob.ParseDigest(s)
	if err != nil {
		panic(err)
	}
	return d
}

// injective stand-in for sha256.Sum256 (inputs are concrete along a path)
func vfSum256(data []byte) [32]byte {
	s := string(data)
	idx := -1
	for i, h := range vfHashSeen {
		if h == s {
			idx = i
		}
	}
	if idx < 0 {
		vfHashSeen = append(vfHashSeen, s)
		idx = len(vfHashSeen) - 1
	}
	var out [32]byte
	out[0], out[1], out[31] = 0xEE, byte(idx), 0xEE
	return out
}

func vfFileOf(d blob.Digest) *vfFile {
	f := vfFiles[d]
	if f == nil {
		f = &vfFile{}
		vfFiles[d] = f
	}
	return f
}

func vfResolve(r *Registry, ctx context.Context, name string) (*Manifest, error) {
	if !vfReduced && verifChoice(2) == 1 {
		return nil, errors.New("registry: 503")
	}
	return &Manifest{Name: "h/n/m:t", Data: vfManifest, Layers: vfLayers}, nil
}

func vfCacheGet(c *blob.DiskCache, d blob.Digest) (blob.Entry, error) {
	f := vfFiles[d]
	if f == nil || !f.exists || f.length == 0 {
		return blob.Entry{}, errors.New("file does not exist")
	}
	return blob.Entry{Digest: d, Size: f.length}, nil
}

func vfChunked(c *blob.DiskCache, d blob.Digest, size int64) (*blob.Chunker, error) {
	f := vfFileOf(d)
	ck := &blob.Chunker{}
	if f.exists && f.length == size {
		return ck, nil // "pre-validated": Put is a no-op
	}
	if !vfReduced && verifChoice(2) == 1 {
		return nil, errors.New("open: permission denied")
	}
	f.exists = true
	vfChunkers[ck] = &vfChunkerState{d: d, size: size}
	return ck, nil
}

type vfBody struct {
	good  bool
	avail int64
	fail  bool // error instead of EOF when the bytes run out
	done  int64
}

func (b *vfBody) Read(p []byte) (int, error) {
	if b.done >= b.avail {
		if b.fail {
			return 0, errors.New("read: connection reset")
		}
		return 0, io.EOF
	}
	n := int64(len(p))
	if n > b.avail-b.done {
		n = b.avail - b.done
	}
	if n > 1 && !vfReduced && verifChoice(2) == 1 {
		n = 1 // bytes may arrive one at a time
	}
	b.done += n
	return int(n), nil
}
func (b *vfBody) Close() error { return nil }

// the model of Chunker.Put + checkWriter: bytes are written as they arrive, the last piece only
// after the chunk's digest was verified
func vfChunkPut(c *blob.Chunker, chunk blob.Chunk, d blob.Digest, r io.Reader) error {
	st := vfChunkers[c]
	if st == nil {
		return nil
	}
	f := vfFileOf(st.d)
	size := chunk.Size()
	body := r.(*trackingReader).r.(*vfBody)
	buf := make([]byte, vfLayerSize)
	var got, lastPiece int64
	var rerr error
	for got < size {
		n, err := r.Read(buf[:size-got])
		if n > 0 {
			lastPiece = int64(n)
		}
		got += int64(n)
		if err != nil {
			rerr = err
			break
		}
	}
	written := got
	if got == size && !body.good {
		written = got - lastPiece // the final piece is withheld when the digest does not match
	}
	if end := chunk.Start + written; written > 0 && end > f.length {
		f.length = end
	}
	if got < size {
		if rerr == nil || rerr == io.EOF {
			return io.ErrUnexpectedEOF
		}
		return rerr
	}
	if !body.good {
		return errors.New("file content changed underfoot")
	}
	for i := chunk.Start; i <= chunk.End; i++ {
		f.ok[i] = true
	}
	return nil
}

func vfChunkClose(c *blob.Chunker) error { return nil }

func vfCachePut(c *blob.DiskCache, d blob.Digest, r io.Reader, size int64) error {
	f := vfFileOf(d)
	if f.exists && f.length == size {
		return nil
	}
	if !vfReduced && verifChoice(2) == 1 {
		return errors.New("write: no space left on device")
	}
	f.exists, f.length, f.whole = true, size, true
	return nil
}

func vfIntact(l *Layer) bool {
	f := vfFiles[l.Digest]
	if f == nil || !f.exists || f.length != l.Size {
		return false
	}
	for i := int64(0); i < l.Size; i++ {
		if !f.ok[i] {
			return false
		}
	}
	return true
}

func vfHasHole(l *Layer) bool {
	f := vfFiles[l.Digest]
	return f != nil && f.exists && f.length == l.Size && !vfIntact(l)
}

func vfAllIntactTag(tag string) {
	all := true
	for _, l := range vfLayers {
		if !vfIntact(l) {
			all = false
		}
	}
	if vfNonCovering {
		// known finding: coverage of the chunk list is judged by byte count only
		tag += "@chunk-list-does-not-cover-the-layer"
	} else if vfHoleAtStart {
		// known finding (C08's chunk hole seen from Pull): a layer file that reached its full length with
		// a range missing in an earlier attempt is taken for a cached layer
		tag += "@layer-file-of-full-length-with-a-missing-range-from-an-earlier-attempt"
	}
	verifAssert(all, tag)
}

func vfCacheLink(c *blob.DiskCache, name string, d blob.Digest) error {
	vfAllIntactTag("name-linked-only-after-every-layer-is-in-the-cache")
	mf := vfFiles[d]
	verifAssert(mf != nil && mf.exists && mf.whole, "manifest-stored-before-the-link")
	if !vfReduced && verifChoice(2) == 1 {
		return errors.New("link: permission denied")
	}
	vfLinked++
	return nil
}

// the registry's chunk plan for one layer: one chunk, or two (split anywhere), possibly broken off
func vfChunksums(r *Registry, ctx context.Context, name string, l *Layer) iter.Seq2[chunksum, error] {
	li := 0
	for i, x := range vfLayers {
		if x == l {
			li = i
		}
	}
	return func(yield func(chunksum, error) bool) {
		nPlans := 3
		if !vfReduced {
			nPlans = 4
		}
		switch verifChoice(nPlans) {
		case 3: // a chunk list that does not cover the layer: the same range twice
			vfNonCovering = true
			cs := chunksum{URL: "u", Chunk: blob.Chunk{Start: 2, End: l.Size - 1}, Digest: vfChunkDig[2+li]}
			if !yield(cs, nil) {
				return
			}
			yield(cs, nil)
		case 0:
			yield(chunksum{URL: "u", Chunk: blob.Chunk{Start: 0, End: l.Size - 1}, Digest: l.Digest}, nil)
		case 1:
			yield(chunksum{}, errors.New("chunksums: 500"))
		case 2:
			k := int64(2)
			if !vfReduced {
				k = int64(1 + verifChoice(vfLayerSize-1)) // first chunk [0,k-1]
			}
			// chunk digests come from a pool shared by the layers: equal content in two layers has equal digests
			if !yield(chunksum{URL: "u", Chunk: blob.Chunk{Start: 0, End: k - 1}, Digest: vfChunkDig[verifChoice(2)]}, nil) {
				return
			}
			if !vfReduced && verifChoice(2) == 1 {
				yield(chunksum{}, errors.New("chunksums: connection reset"))
				return
			}
			yield(chunksum{URL: "u", Chunk: blob.Chunk{Start: k, End: l.Size - 1}, Digest: vfChunkDig[2+li]}, nil)
		}
	}
}

func vfNewRequest(ctx context.Context, method, url string, body io.Reader) (*http.Request, error) {
	return &http.Request{Header: http.Header{}}, nil
}

func vfSendRequest(c *http.Client, r *http.Request) (*http.Response, error) {
	switch verifChoice(4) {
	case 1:
		return nil, errors.New("registry: 500")
	case 2: // short body
		if vfReduced {
			return &http.Response{Body: &vfBody{good: true, avail: 1}}, nil
		}
		return &http.Response{Body: &vfBody{good: true, avail: int64(verifChoice(vfLayerSize)), fail: verifChoice(2) == 1}}, nil
	case 3: // right length, wrong bytes
		return &http.Response{Body: &vfBody{good: false, avail: vfLayerSize}}, nil
	}
	return &http.Response{Body: &vfBody{good: true, avail: vfLayerSize}}, nil
}

func vfClient(r *Registry) *http.Client { return nil }

// VerifC09RegistryPull: nLayers layers of 4 bytes; attempts pulls in a row.
func VerifC09RegistryPull(nLayers, attempts, reduced int) {
	vfReduced = reduced != 0
	vfFiles = map[blob.Digest]*vfFile{}
	vfChunkers = map[*blob.Chunker]*vfChunkerState{}
	vfLayers, vfChunkDig, vfLinked, vfHashSeen = nil, nil, 0, nil
	vfNonCovering = false
	vfManifest = []byte("manifest")
	for i := 0; i < nLayers; i++ {
		vfLayers = append(vfLayers, &Layer{Digest: vfDig(i + 1), Size: vfLayerSize})
	}
	for i := 0; i < 2+nLayers; i++ {
		vfChunkDig = append(vfChunkDig, vfDig(8+i))
	}
	r := &Registry{Cache: &blob.DiskCache{}, MaxStreams: 2}
	for a := 0; a < attempts; a++ {
		vfHoleAtStart = false
		for _, l := range vfLayers {
			if vfHasHole(l) {
				vfHoleAtStart = true
			}
		}
		linkedBefore := vfLinked
		err := r.Pull(context.Background(), "h/n/m:t")
		verifQuiesce()
		verifReach("pull-returned")
		if err == nil {
			verifReach("pull-succeeded")
			vfAllIntactTag("success-means-every-layer-is-in-the-cache-with-its-size-and-content")
			verifAssert(vfLinked == linkedBefore+1, "success-means-the-name-was-linked")
		} else {
			verifAssert(vfLinked == linkedBefore, "failed-pull-does-not-link-the-name")
		}
	}
}
