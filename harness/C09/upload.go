package server

import (
	"context"
	"errors"
	"hash"
	"io"
	"net/http"
	"net/url"
	"os"
	"sync"
	"time"

	"golang.org/x/sync/errgroup"
)

// C09 (default push path): the REAL blobUpload.Run - part loop, errgroup, retry loops, commit request -
// with the network replaced by stubs with arbitrary outcomes. What PushModel relies on: an upload that
// ends "done" without error has had its commit request accepted by the registry.

var (
	vfCommitAccepted bool
	vfCommits        int
	vfPartsAccepted  int
)

type vfMD5 struct{}

func (vfMD5) Write(p []byte) (int, error) { return len(p), nil }
func (vfMD5) Sum(b []byte) []byte         { return append(b, 1, 2, 3, 4) }
func (vfMD5) Reset()                      {}
func (vfMD5) Size() int                   { return 4 }
func (vfMD5) BlockSize() int              { return 64 }

func vfNewMD5() hash.Hash { return vfMD5{} }

func vfWithCancel(parent context.Context) (context.Context, context.CancelFunc) {
	return parent, func() {}
}

func vfErrgroupWithContext(ctx context.Context) (*errgroup.Group, context.Context) {
	return &errgroup.Group{}, ctx
}

func vfPow(x, y float64) float64 { return 1 }

func vfOpenFile0(name string) (*os.File, error) { return new(os.File), nil }

// one part upload attempt: accepted, rejected, cancelled or retries exhausted
func vfUploadPart(b *blobUpload, ctx context.Context, method string, requestURL *url.URL, part *blobUploadPart, opts *registryOptions) error {
	switch verifChoice(4) {
	case 1:
		return errors.New("http status 500")
	case 2:
		return context.Canceled
	case 3:
		return errMaxRetriesExceeded
	}
	vfPartsAccepted++
	b.nextURL <- requestURL
	part.Hash = vfMD5{}
	return nil
}

type vfBody0 struct{}

func (vfBody0) Read(p []byte) (int, error) { return 0, io.EOF }
func (vfBody0) Close() error               { return nil }

// the commit request (PUT ...?digest=...): accepted, refused, or cancelled
func vfCommitRequest(ctx context.Context, method string, requestURL *url.URL, headers http.Header, body io.ReadSeeker, regOpts *registryOptions) (*http.Response, error) {
	vfCommits++
	verifAssert(method == http.MethodPut, "commit-is-a-put")
	switch verifChoice(3) {
	case 1:
		return nil, errors.New("400: digest mismatch")
	case 2:
		return nil, context.Canceled
	}
	vfCommitAccepted = true
	return &http.Response{StatusCode: 201, Body: vfBody0{}}, nil
}

func vfGetBlobsPath0(digest string) (string, error) { return "/models/blobs/" + digest, nil }

// VerifC09UploadRun: a blob of nParts parts.
func VerifC09UploadRun(nParts int) {
	vfCommitAccepted, vfCommits, vfPartsAccepted = false, 0, 0
	b := &blobUpload{Layer: Layer{Digest: "sha256:aaaaaaaaaaaaaaaaaaaaaaaaaaaaaaaaaaaaaaaaaaaaaaaaaaaaaaaaaaaaaaaa", Size: int64(nParts)}}
	for i := 0; i < nParts; i++ {
		b.Parts = append(b.Parts, blobUploadPart{N: i, Offset: int64(i), Size: 1})
	}
	b.Total = int64(nParts)
	b.nextURL = make(chan *url.URL, 1)
	b.nextURL <- &url.URL{Scheme: "https", Host: "registry.example", Path: "/v2/library/m/blobs/uploads/1"}
	b.Run(context.Background(), &registryOptions{})
	verifReach("run-returned")
	if b.err == nil {
		verifReach("upload-reported-ok")
		verifAssert(b.done, "run-without-error-ends-done")
		verifAssert(vfPartsAccepted >= nParts, "upload-ok-only-after-every-part-was-accepted")
		verifAssert(vfCommitAccepted, "upload-ok-only-after-the-registry-accepted-the-commit")
	} else {
		verifReach("upload-reported-error")
	}
	if vfCommits > 0 {
		verifAssert(vfPartsAccepted >= nParts, "commit-only-after-every-part-was-accepted")
	}
}

func vfSyncMapDelete0(m *sync.Map, key any) {}

// ---- Run with real cancellation (context.WithCancel and errgroup.WithContext are the real code) ----

// time.After in terms of the engine's timer model
func vfTimeAfter(d time.Duration) <-chan time.Time {
	ch := make(chan time.Time, 1)
	time.AfterFunc(d, func() { ch <- time.Time{} })
	return ch
}

// a part upload attempt that honours cancellation the way the HTTP client does
func vfUploadPartCtx(b *blobUpload, ctx context.Context, method string, requestURL *url.URL, part *blobUploadPart, opts *registryOptions) error {
	if ctx.Err() != nil {
		return context.Canceled
	}
	switch verifChoice(3) {
	case 1:
		return errors.New("http status 500")
	case 2:
		return errMaxRetriesExceeded
	}
	vfPartsAccepted++
	b.nextURL <- requestURL
	part.Hash = vfMD5{}
	return nil
}

func vfCommitRequestCtx(ctx context.Context, method string, requestURL *url.URL, headers http.Header, body io.ReadSeeker, regOpts *registryOptions) (*http.Response, error) {
	if ctx.Err() != nil {
		return nil, context.Canceled
	}
	vfCommits++
	if verifChoice(2) == 1 {
		return nil, errors.New("400: digest mismatch")
	}
	vfCommitAccepted = true
	return &http.Response{StatusCode: 201, Body: vfBody0{}}, nil
}

// VerifC09UploadRunCancel: as VerifC09UploadRun, and every caller waiting for the upload goes away at a
// scheduler-chosen moment (the upload's context is cancelled): Run must end - no panic, no goroutine
// stuck - and must not report the upload as done without error unless the registry accepted it.
func VerifC09UploadRunCancel(nParts int) {
	vfCommitAccepted, vfCommits, vfPartsAccepted = false, 0, 0
	b := &blobUpload{Layer: Layer{Digest: "sha256:aaaaaaaaaaaaaaaaaaaaaaaaaaaaaaaaaaaaaaaaaaaaaaaaaaaaaaaaaaaaaaaa", Size: int64(nParts)}}
	for i := 0; i < nParts; i++ {
		b.Parts = append(b.Parts, blobUploadPart{N: i, Offset: int64(i), Size: 1})
	}
	b.Total = int64(nParts)
	b.nextURL = make(chan *url.URL, 1)
	b.nextURL <- &url.URL{Scheme: "https", Host: "registry.example", Path: "/v2/library/m/blobs/uploads/1"}
	ctx, cancel := context.WithCancel(context.Background())
	finished := make(chan struct{})
	go func() {
		b.Run(ctx, &registryOptions{})
		close(finished)
	}()
	go func() {
		verifNote("callers-go-away")
		cancel()
	}()
	<-finished
	verifReach("run-returned")
	if b.err == nil {
		verifReach("upload-reported-ok")
		verifAssert(b.done, "run-without-error-ends-done")
		verifAssert(vfPartsAccepted >= nParts, "upload-ok-only-after-every-part-was-accepted")
		verifAssert(vfCommitAccepted, "upload-ok-only-after-the-registry-accepted-the-commit")
	}
	if vfCommits > 0 {
		verifAssert(vfPartsAccepted >= nParts, "commit-only-after-every-part-was-accepted")
	}
}
