package server

import (
	"context"
	"errors"
	"io"
	"net/http"
	"net/url"
	"os"
	"time"

	"github.com/ollama/ollama/api"
)

// C15 (transfer managers): concurrent pushes that need the same blob share one blobUpload. The REAL
// uploadBlob and blobUpload.Wait; Prepare and Run are stubs with arbitrary outcomes (join harness) or Run
// is the real function (race harness, stubs of C09/upload.go).

var (
	vfUpSettled bool // the shared upload has finished, or will never start (Prepare failed)
	vfLateTicks int
)

// time.NewTicker: a ticker that ticks whenever its reader is ready for it (a feeder goroutine offers
// ticks on an unbuffered channel). Once the upload is settled a waiter must return on its next poll:
// more than two further ticks mean that it polls for ever.
func vfNewTickerFeeding(d time.Duration) *time.Ticker {
	ch := make(chan time.Time)
	go func() {
		for {
			ch <- time.Time{}
			if vfUpSettled {
				vfLateTicks++
				verifAssert(vfLateTicks <= 4, "waiter-keeps-polling-after-the-transfer-is-settled")
			}
		}
	}()
	return &time.Ticker{C: ch}
}

func vfHeadNotFound(ctx context.Context, method string, requestURL *url.URL, headers http.Header, body io.ReadSeeker, regOpts *registryOptions) (*http.Response, error) {
	if method == http.MethodHead {
		return nil, os.ErrNotExist // the registry does not have the blob yet
	}
	return vfCommitRequest(ctx, method, requestURL, headers, body, regOpts)
}

func vfUpPrepare(b *blobUpload, ctx context.Context, requestURL *url.URL, opts *registryOptions) error {
	verifYield() // the POST that opens the upload session is a network round trip
	if verifChoice(2) == 1 {
		vfUpSettled = true
		return errors.New("POST uploads failed")
	}
	return nil
}

func vfUpRun(b *blobUpload, ctx context.Context, opts *registryOptions) {
	b.CancelFunc = func() {}
	verifYield()
	if verifChoice(2) == 1 {
		b.err = errors.New("upload failed")
	} else {
		b.done = true
	}
	vfUpSettled = true
	vfMgrDelete(nil, b.Digest)
}

func vfUploadLayer() Layer {
	return Layer{Digest: "sha256:aaaaaaaaaaaaaaaaaaaaaaaaaaaaaaaaaaaaaaaaaaaaaaaaaaaaaaaaaaaaaaaa", Size: 1}
}

// VerifC15UploadJoin: n concurrent uploadBlob calls for one layer: every caller returns.
func VerifC15UploadJoin(n int) {
	vfMgr = map[string]any{}
	vfUpSettled, vfLateTicks = false, 0
	done := make(chan bool, n)
	for i := 0; i < n; i++ {
		go func() {
			err := uploadBlob(context.Background(), ModelPath{Namespace: "library", Repository: "m"}, vfUploadLayer(), &registryOptions{}, func(api.ProgressResponse) {})
			done <- err == nil
		}()
	}
	for i := 0; i < n; i++ {
		<-done
	}
	verifReach("all-uploads-returned")
}

// VerifC15UploadRace: the real Run of a one-part upload against a concurrent real Wait (race detection on).
func VerifC15UploadRace() {
	vfCommitAccepted, vfCommits, vfPartsAccepted = false, 0, 0
	vfUpSettled, vfLateTicks = false, 0
	b := &blobUpload{Layer: vfUploadLayer()}
	b.Parts = append(b.Parts, blobUploadPart{N: 0, Offset: 0, Size: 1})
	b.Total = 1
	b.nextURL = make(chan *url.URL, 1)
	b.nextURL <- &url.URL{Scheme: "https", Host: "registry.example", Path: "/v2/library/m/blobs/uploads/1"}
	b.CancelFunc = func() {}
	done := make(chan bool, 1)
	go func() {
		b.Run(context.Background(), &registryOptions{})
		vfUpSettled = true
	}()
	go func() {
		err := b.Wait(context.Background(), func(api.ProgressResponse) {})
		done <- err == nil
	}()
	<-done
	verifReach("wait-returned")
}
