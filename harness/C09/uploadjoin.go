package server

import (
	"context"
	"errors"
	"io"
	"net/http"
	"net/url"
	"os"
	"time"

	"github.com/ollama/ollama/api"
)

// C15 (transfer managers): concurrent pushes that need the same blob share one blobUpload. The REAL
// uploadBlob and blobUpload.Wait; Prepare and Run are stubs with arbitrary outcomes (join harness) or Run
// is the real function (race harness, stubs of C09/upload.go).

var (
	vfUpSettled bool // the shared upload has finished, or will never start (Prepare failed)
	vfLateTicks int
)

// time.NewTicker: a ticker that ticks whenever its reader is ready for it (a feeder goroutine offers
// ticks on an unbuffered channel). Once the upload is settled a waiter must return on its next poll:
// more than two further ticks mean that it polls for ever.
func vfNewTickerFeeding(d time.Duration) *time.Ticker {
	ch := make(chan time.Time)
	go func() {
		for {
			ch <- time.Time{}
			if vfUpSettled {
				vfLateTicks++
				verifAssert(vfLateTicks <= 4, "waiter-keeps-polling-after-the-transfer-is-settled")
			}
		}
	}()
	return &time.Ticker{C: ch}
}

func vfHeadNotFound(ctx context.Context, method string, requestURL *url.URL, headers http.Header, body io.ReadSeeker, regOpts *registryOptions) (*http.Response, error) {
	if method == http.MethodHead {
		return nil, os.ErrNotExist // the registry does not have the blob yet
	}
	return vfCommitRequest(ctx, method, requestURL, headers, body, regOpts)
}

func vfUpPrepare(b *blobUpload, ctx context.Context, requestURL *url.URL, opts *registryOptions) error {
	verifYield() // the POST that opens the upload session is a network round trip
	if verifChoice(2) == 1 {
		vfUpSettled = true
		return errors.New("POST uploads failed")
	}
	return nil
}

func vfUpRun(b *blobUpload, ctx context.Context, opts *registryOptions) {
	b.CancelFunc = func() {}
	verifYield()
	if verifChoice(2) == 1 {
		b.err = errors.New("upload failed")
	} else {
		b.done = true
	}
	vfUpSettled = true
	vfMgrDelete(nil, b.key) // as the real Run does (deferred)
}

func vfUploadLayer() Layer {
	return Layer{Digest: "sha256:aaaaaaaaaaaaaaaaaaaaaaaaaaaaaaaaaaaaaaaaaaaaaaaaaaaaaaaaaaaaaaaa", Size: 1}
}

// VerifC15UploadJoin: n concurrent uploadBlob calls for one layer: every caller returns.
func VerifC15UploadJoin(n int) {
	vfMgr = map[string]any{}
	vfUpSettled, vfLateTicks = false, 0
	done := make(chan bool, n)
	for i := 0; i < n; i++ {
		go func() {
			err := uploadBlob(context.Background(), ModelPath{Namespace: "library", Repository: "m"}, vfUploadLayer(), &registryOptions{}, func(api.ProgressResponse) {})
			done <- err == nil
		}()
	}
	for i := 0; i < n; i++ {
		<-done
	}
	verifReach("all-uploads-returned")
}

// VerifC15UploadRace: the real Run of a one-part upload against a concurrent real Wait (race detection on).
func VerifC15UploadRace() {
	vfCommitAccepted, vfCommits, vfPartsAccepted = false, 0, 0
	vfUpSettled, vfLateTicks = false, 0
	b := &blobUpload{Layer: vfUploadLayer()}
	b.Parts = append(b.Parts, blobUploadPart{N: 0, Offset: 0, Size: 1})
	b.Total = 1
	b.nextURL = make(chan *url.URL, 1)
	b.nextURL <- &url.URL{Scheme: "https", Host: "registry.example", Path: "/v2/library/m/blobs/uploads/1"}
	b.CancelFunc = func() {}
	done := make(chan bool, 1)
	go func() {
		b.Run(context.Background(), &registryOptions{})
		vfUpSettled = true
	}()
	go func() {
		err := b.Wait(context.Background(), func(api.ProgressResponse) {})
		done <- err == nil
	}()
	<-done
	verifReach("wait-returned")
}

// ---- C09: a layer counts as pushed only if THIS registry accepted it (sequential pushes) ----

var (
	vfAccepted   map[string]bool // registry host -> the layer is there
	vfUpRegistry string          // the registry the upload in flight was prepared against
	vfUpPrepares int
)

func vfBaseURLHost(mp ModelPath) *url.URL { return &url.URL{Scheme: "https", Host: mp.Registry} }

// HEAD: is the blob on that registry? every other request is the commit of the upload in flight
func vfRegistryRequest(ctx context.Context, method string, requestURL *url.URL, headers http.Header, body io.ReadSeeker, regOpts *registryOptions) (*http.Response, error) {
	if method == http.MethodHead {
		if vfAccepted[requestURL.Host] {
			return &http.Response{StatusCode: 200, Body: vfBody0{}}, nil
		}
		return nil, os.ErrNotExist
	}
	resp, err := vfCommitRequest(ctx, method, requestURL, headers, body, regOpts)
	if err == nil {
		vfAccepted[vfUpRegistry] = true
	}
	return resp, err
}

// Prepare: the POST that opens the session fails, opens a session (one part to upload), or is answered
// 201: the registry has mounted the blob from another repository and there is nothing to upload
func vfUpPrepare3(b *blobUpload, ctx context.Context, requestURL *url.URL, opts *registryOptions) error {
	vfUpPrepares++
	vfUpRegistry = requestURL.Host
	switch verifChoice(3) {
	case 1:
		return errors.New("POST uploads failed")
	case 2:
		b.Total = 1
		b.Completed.Store(1)
		b.done = true // as the real Prepare does on 201 Created
		vfAccepted[requestURL.Host] = true
		return nil
	}
	b.Total = 1
	b.Parts = append(b.Parts, blobUploadPart{N: 0, Offset: 0, Size: 1})
	b.nextURL = make(chan *url.URL, 1)
	b.nextURL <- &url.URL{Scheme: "https", Host: requestURL.Host, Path: "/v2/library/m/blobs/uploads/1"}
	return nil
}

// VerifC09UploadTwice: the same layer is pushed to registry a and then to registry a or b, one push after
// the other: a push that reports success means the layer is on THAT registry.
func VerifC09UploadTwice() {
	vfMgr = map[string]any{}
	vfAccepted = map[string]bool{}
	vfCommitAccepted, vfCommits, vfPartsAccepted, vfUpPrepares = false, 0, 0, 0
	vfUpSettled, vfLateTicks = false, 0
	layer := vfUploadLayer()
	layer.From = "library/base" // a layer inherited from another model: the registry may mount it
	regs := []string{"a.example", "b.example"}
	for k := 0; k < 2; k++ {
		reg := regs[0]
		if k == 1 {
			reg = regs[verifChoice(2)]
		}
		err := uploadBlob(context.Background(), ModelPath{Registry: reg, Namespace: "library", Repository: "m"}, layer, &registryOptions{}, func(api.ProgressResponse) {})
		verifReach("upload-returned")
		if err == nil {
			verifReach("upload-reported-ok")
			verifAssert(vfAccepted[reg], "push-reports-a-layer-as-uploaded-that-this-registry-never-accepted")
		}
	}
}
