package ollama

import (
	"context"
	"errors"
	"io"
	"net/http"
	"os"
	"strings"

	"github.com/ollama/ollama/server/internal/cache/blob"
)

// C09 (registry client, push): the REAL Registry.Push - local size checks, one errgroup goroutine per
// layer (POST to open an upload, PUT of the blob unless the registry already has it), manifest PUT
// after g.Wait() - with the transport replaced by recording stubs with arbitrary outcomes.

var (
	vfPushLayers   []*Layer
	vfAccepted     map[string]bool // digest text -> the registry has the layer
	vfManifestPuts int
	vfManifestOK   bool
	vfEarly        bool
	vfPending      map[*http.Request]string
)

type vfNopBody struct{}

func (vfNopBody) Read(p []byte) (int, error) { return 0, io.EOF }
func (vfNopBody) Close() error               { return nil }

func vfResolveLocal(r *Registry, name string) (*Manifest, error) {
	return &Manifest{Name: "h/n/m:t", Data: []byte("manifest"), Layers: vfPushLayers}, nil
}

func vfPushGet(c *blob.DiskCache, d blob.Digest) (blob.Entry, error) {
	return blob.Entry{Digest: d, Size: vfLayerSize}, nil
}

func vfPushGetFile(c *blob.DiskCache, d blob.Digest) string { return "/cache/" + d.String() }
func vfOsOpen(name string) (*os.File, error)               { return new(os.File), nil }
func vfFileClose(f *os.File) error                         { return nil }

func vfAllAccepted() bool {
	for _, l := range vfPushLayers {
		if !vfAccepted[l.Digest.String()] {
			return false
		}
	}
	return true
}

// POST .../blobs/uploads/?digest=D  and  PUT .../manifests/tag
func vfSend(r *Registry, ctx context.Context, method, path string, body io.Reader) (*http.Response, error) {
	if method == "PUT" && strings.Contains(path, "/manifests/") {
		vfManifestPuts++
		if !vfAllAccepted() {
			vfEarly = true
		}
		if verifChoice(2) == 1 {
			return nil, errors.New("registry: 500")
		}
		vfManifestOK = true
		return &http.Response{Body: vfNopBody{}, Header: http.Header{}}, nil
	}
	verifAssert(method == "POST" && strings.Contains(path, "/blobs/uploads/?digest="), "layer-upload-starts-with-a-post")
	d := path[strings.Index(path, "?digest=")+len("?digest="):]
	switch verifChoice(3) {
	case 1:
		return nil, errors.New("registry: 401")
	case 2: // the registry already has the blob: no Location
		vfAccepted[d] = true
		return &http.Response{Body: vfNopBody{}, Header: http.Header{}}, nil
	}
	h := http.Header{}
	h.Set("Location", "http://h/upload/"+d)
	return &http.Response{Body: vfNopBody{}, Header: h}, nil
}

func vfPushNewRequest(r *Registry, ctx context.Context, method, url string, body io.Reader) (*http.Request, error) {
	req := &http.Request{Method: method, Header: http.Header{}}
	vfPending[req] = url[strings.LastIndex(url, "/")+1:]
	return req, nil
}

func vfPushSendRequest(c *http.Client, req *http.Request) (*http.Response, error) {
	d := vfPending[req]
	verifAssert(req.Method == "PUT" && d != "", "blob-is-uploaded-with-a-put-to-the-returned-location")
	verifAssert(req.ContentLength == vfLayerSize, "upload-announces-the-layer-size")
	if verifChoice(2) == 1 {
		return nil, errors.New("upload: connection reset")
	}
	vfAccepted[d] = true
	return &http.Response{Body: vfNopBody{}, Header: http.Header{}}, nil
}

// VerifC09RegistryPush: nLayers layers.
func VerifC09RegistryPush(nLayers int) {
	vfPushLayers, vfAccepted, vfManifestPuts, vfManifestOK, vfEarly = nil, map[string]bool{}, 0, false, false
	vfPending = map[*http.Request]string{}
	for i := 0; i < nLayers; i++ {
		vfPushLayers = append(vfPushLayers, &Layer{Digest: vfDig(i + 1), Size: vfLayerSize})
	}
	r := &Registry{Cache: &blob.DiskCache{}, MaxStreams: 2}
	err := r.Push(context.Background(), "http://h/n/m:t", nil)
	verifQuiesce()
	verifReach("push-returned")
	verifAssert(!vfEarly, "manifest-sent-only-after-every-layer-was-accepted")
	verifAssert(vfManifestPuts <= 1, "manifest-sent-at-most-once")
	if err == nil {
		verifReach("push-succeeded")
		verifAssert(vfManifestOK && vfAllAccepted(), "success-means-layers-and-manifest-were-accepted")
	} else {
		verifAssert(!vfManifestOK, "failure-is-not-reported-after-the-manifest-was-accepted")
	}
}
