package registry

import (
	"context"
	"encoding/json"
	"errors"
	"io"
	"iter"
	"net/http"
	"time"

	"github.com/ollama/ollama/server/internal/client/ollama"
)

// C09, the retry loop around Pull: the REAL Local.handlePull (streaming and non-streaming) and canRetry
// with Registry.Pull replaced by a script of outcomes and the wire replaced by a recorder: "success" is
// reported only if a Pull succeeded (i.e. linked the name), a temporary failure is retried, any other
// failure ends the request with that error.

var (
	vfOutcomes []int // per Pull call: 0 ok, 1 registry 5xx, 2 connection reset, 3 read timeout, 4 registry 4xx, 5 not found, 6 other
	vfPulls    int
	vfEncoded  []progressUpdateJSON
	vfStreamRq bool
)

const vfMaxPulls = 7

func vfPull(r *ollama.Registry, ctx context.Context, name string) error {
	k := vfPulls
	vfPulls++
	verifAssert(k < len(vfOutcomes), "pull-not-repeated-after-a-final-outcome")
	if k >= len(vfOutcomes) {
		return errors.New("script exhausted")
	}
	switch vfOutcomes[k] {
	case 0:
		return nil
	case 1:
		return ollama.VerifRegistryError(503)
	case 2:
		return errors.New("read tcp 10.0.0.1:443: connection reset by peer")
	case 3:
		return context.DeadlineExceeded
	case 4:
		return ollama.VerifRegistryError(403)
	case 5:
		return ollama.ErrModelNotFound
	}
	return errors.New("manifest invalid")
}

func vfRetryable(o int) bool { return o >= 1 && o <= 3 }

func vfDecodeParams(r io.Reader) (*params, error) {
	s := vfStreamRq
	return &params{Model: "h/n/m:t", Stream: &s}, nil
}

func vfEncode(e *json.Encoder, v any) error {
	if p, ok := v.(progressUpdateJSON); ok {
		vfEncoded = append(vfEncoded, p)
	}
	return nil
}

// backoff.Loop without the clock: yields attempt numbers until the consumer stops or the context ends
func vfLoop(ctx context.Context, maxBackoff time.Duration) iter.Seq2[int, error] {
	return func(yield func(int, error) bool) {
		for n := 0; ; n++ {
			if ctx.Err() != nil {
				yield(n, ctx.Err())
				return
			}
			verifAssume(n <= vfMaxPulls) // stated bound on the number of attempts
			if !yield(n, nil) {
				return
			}
		}
	}
}

// the trace only feeds progress lines; Pull is a script here
func vfWithTrace(ctx context.Context, t *ollama.Trace) context.Context { return ctx }

func vfNewTicker(d time.Duration) *time.Ticker { return &time.Ticker{C: make(chan time.Time)} }
func vfTickerReset(t *time.Ticker, d time.Duration) {}

type vfRW struct{ hdr http.Header }

func (w *vfRW) Header() http.Header {
	if w.hdr == nil {
		w.hdr = http.Header{}
	}
	return w.hdr
}
func (w *vfRW) Write(b []byte) (int, error) { return len(b), nil }
func (w *vfRW) WriteHeader(int)             {}
func (w *vfRW) Flush()                      {}

type vfNoBody struct{}

func (vfNoBody) Read(p []byte) (int, error) { return 0, io.EOF }
func (vfNoBody) Close() error               { return nil }

// VerifC09HandlePull: every script of up to 7 Pull outcomes.
func VerifC09HandlePull(stream int) {
	vfStreamRq = stream != 0
	vfOutcomes, vfPulls, vfEncoded = nil, 0, nil
	for k := 0; k < vfMaxPulls; k++ {
		o := verifChoice(7)
		if k == vfMaxPulls-1 && vfRetryable(o) {
			o = 0 // the last scripted attempt is final
		}
		vfOutcomes = append(vfOutcomes, o)
		if !vfRetryable(o) {
			break
		}
	}
	s := &Local{Client: &ollama.Registry{}}
	req := &http.Request{Method: "POST", Body: vfNoBody{}}
	err := s.handlePull(&vfRW{}, req)
	verifQuiesce()
	verifReach("returned")
	last := vfOutcomes[len(vfOutcomes)-1]
	success := false
	for _, p := range vfEncoded {
		if p.Status == "success" {
			success = true
		}
	}
	if vfStreamRq {
		verifAssert(vfPulls == len(vfOutcomes), "temporary-failures-are-retried-until-a-final-outcome")
		verifAssert(success == (last == 0), "success-is-reported-iff-the-last-pull-succeeded")
		verifAssert((err == nil) == (last == 0), "error-is-returned-iff-the-last-pull-failed")
	} else {
		first := vfOutcomes[0]
		verifAssert(vfPulls == 1, "non-streaming-pull-is-attempted-once")
		verifAssert(success == (first == 0), "success-is-reported-iff-the-pull-succeeded")
		verifAssert((err == nil) == (first == 0), "error-is-returned-iff-the-pull-failed")
	}
	if success {
		verifReach("success-reported")
	}
}
