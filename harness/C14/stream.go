package ollamarunner

import (
	"strings"
	"sync"
	"unicode/utf8"

	"golang.org/x/sync/semaphore"

	"github.com/ollama/ollama/llm"
	"github.com/ollama/ollama/ml"
	"github.com/ollama/ollama/model"
	"github.com/ollama/ollama/model/input"
	"github.com/ollama/ollama/sample"
)

// C14 harness: one sequence through the real Server.processBatch with a scripted model.
// The model has no KV cache; it emits token 1 (a text token) or token 0 (end of sequence)
// as chosen by the solver, and Decode returns a solver-chosen piece of text per token.

type vfBackend struct{ ml.Backend }

func (b *vfBackend) NewContext() ml.Context        { return &vfCtx{} }
func (b *vfBackend) NewContextSize(int) ml.Context { return &vfCtx{} }

type vfCtx struct{ ml.Context }

func (c *vfCtx) Input() ml.Context               { return c }
func (c *vfCtx) Layer(int) ml.Context            { return c }
func (c *vfCtx) Forward(...ml.Tensor) ml.Context { return c }
func (c *vfCtx) Compute(...ml.Tensor)            {}
func (c *vfCtx) Close()                          {}
func (c *vfCtx) FromIntSlice(s []int32, shape ...int) (ml.Tensor, error) {
	return &vfTensor{}, nil
}

type vfTensor struct {
	ml.Tensor
	data []float32
}

func (t *vfTensor) Floats() []float32 { return t.data }

type vfModel struct {
	model.Base
	be       *vfBackend
	maxPiece int
	gen      []string // ghost: pieces decoded so far
	eosAt    int      // ghost: step at which EOS was emitted (-1)
	step     int
}

func (m *vfModel) Backend() ml.Backend { return m.be }

func (m *vfModel) Forward(ctx ml.Context, batch input.Batch) (ml.Tensor, error) {
	// vocabulary of two tokens: 0 = EOS, 1 = text
	logits := make([]float32, 2*len(batch.Outputs))
	for o := range batch.Outputs {
		if verifChoice(2) == 0 {
			logits[2*o+0] = 1
			m.eosAt = m.step
		} else {
			logits[2*o+1] = 1
		}
	}
	m.step++
	return &vfTensor{data: logits}, nil
}

func (m *vfModel) Encode(s string, addSpecial bool) ([]int32, error) { return nil, nil }
func (m *vfModel) Is(id int32, sp model.Special) bool                { return sp == model.SpecialEOS && id == 0 }
func (m *vfModel) Decode(ids []int32) (string, error) {
	p := verifNondetString("piece", m.maxPiece)
	m.gen = append(m.gen, p)
	return p, nil
}

func vfContainsAny(s string, stops []string) bool {
	for _, st := range stops {
		if strings.Contains(s, st) {
			return true
		}
	}
	return false
}

// VerifC14Stream: k batches, nStops stop strings of 1..maxStop bytes, pieces of 0..maxPiece bytes,
// numPredict 0 (unlimited) or a limit.
func VerifC14Stream(k int, nStops int, maxStop int, maxPiece int, numPredict int) {
	fm := &vfModel{be: &vfBackend{}, maxPiece: maxPiece, eosAt: -1}
	var stops []string
	for i := 0; i < nStops; i++ {
		st := verifNondetString("stop", maxStop)
		verifAssume(len(st) >= 1)
		verifAssume(utf8.ValidString(st)) // stop strings arrive as JSON strings, which are valid UTF-8
		stops = append(stops, st)
	}
	slot := &InputCacheSlot{Id: 0, InUse: true}
	ic := &InputCache{numCtx: 64, enabled: true, slots: []InputCacheSlot{*slot}}
	s := &Server{batchSize: 4, parallel: 1, seqs: make([]*Sequence, 1), seqsSem: semaphore.NewWeighted(1), cache: ic, model: fm}
	s.cond = sync.NewCond(&s.mu)
	seq := &Sequence{inputs: []input.Input{{Token: 7}}, numPromptInputs: 1, numPredict: numPredict,
		pendingResponses: []string{}, responses: make(chan string, 64), quit: make(chan bool, 1), embedding: make(chan []float32, 1),
		sampler: sample.NewSampler(0, 0, 0, 0, -1, nil), stop: stops, cache: slot}
	s.seqsSem.TryAcquire(1)
	s.seqs[0] = seq

	for i := 0; i < k && s.seqs[0] != nil; i++ {
		err := s.processBatch()
		verifAssert(err == nil, "process-batch-no-error")
	}
	finished := s.seqs[0] == nil
	verifReach("ran")

	var out string
	var chunks []string
	for len(seq.responses) > 0 {
		c := <-seq.responses
		chunks = append(chunks, c)
		out += c
	}
	gen := strings.Join(fm.gen, "")
	valid := utf8.ValidString(gen)

	if valid {
		verifReach("valid-text")
		// class V: everything the statement says
		verifAssert(strings.HasPrefix(gen, out), "output-is-prefix-of-generated-text")
		for _, c := range chunks {
			verifAssert(utf8.ValidString(c), "chunk-is-whole-utf8")
			verifAssert(!vfContainsAny(c, stops), "chunk-contains-no-stop")
		}
		verifAssert(!vfContainsAny(out, stops), "output-contains-no-stop")
		if finished {
			hasStop := vfContainsAny(gen, stops)
			switch seq.doneReason {
			case llm.DoneReasonStop:
				verifAssert(hasStop || fm.eosAt >= 0, "reason-stop-means-stop-or-eos")
				if hasStop {
					// the output ends immediately before a stop sequence
					rest := gen[len(out):]
					before := false
					for _, st := range stops {
						if strings.HasPrefix(rest, st) {
							before = true
						}
					}
					verifAssert(before, "output-ends-immediately-before-a-stop")
				} else {
					verifAssert(out == gen, "eos-returns-everything-generated")
				}
			case llm.DoneReasonLength:
				verifAssert(!hasStop && fm.eosAt < 0, "reason-length-means-limit")
				verifAssert(numPredict > 0 && len(fm.gen) >= numPredict, "limit-reached")
				verifAssert(out == gen, "limit-returns-everything-generated")
			default:
				verifAssert(false, "unexpected-done-reason")
			}
		} else {
			// still generating: nothing containing a stop may have been generated yet
			verifAssert(!vfContainsAny(gen, stops), "generation-continues-only-without-stop")
		}
	} else {
		// class I (generated text is not valid UTF-8): the first sentence of the statement still applies
		verifAssert(utf8.ValidString(out), "output-is-valid-utf8-even-for-invalid-text")
		verifAssert(strings.HasPrefix(gen, out), "output-is-prefix-of-generated-text@invalid-utf8")
	}
}
