package llm

import (
	"fmt"
	"strconv"
	"strings"

	"github.com/ollama/ollama/api"
	"github.com/ollama/ollama/discover"
	"github.com/ollama/ollama/envconfig"
	"github.com/ollama/ollama/fs/ggml"
)

// Environment of the estimator: arbitrary values of the right type.
var (
	vfKV              []uint64
	vfPartial, vfFull uint64
	vfProjW, vfProjG  uint64
	vfOverhead        uint64
)

const vfLim = uint64(1) << 50 // all memory quantities below 2^50 so that sums cannot wrap (stated bound)

func vfMem(tag string) uint64 {
	v := verifNondetU64(tag)
	verifAssume(v < vfLim)
	return v
}

// replacement for (ggml.GGML).GraphSize
func vfGraphSize(f ggml.GGML, context, batch uint64, numParallel int, kvCacheType string) ([]uint64, uint64, uint64) {
	return vfKV, vfPartial, vfFull
}

// replacement for (ggml.GGML).VisionGraphSize
func vfVisionGraphSize(f ggml.GGML) (uint64, uint64) { return vfProjW, vfProjG }

var vfLibs = []string{"cuda", "metal", "cpu", "rocm"}

// VerifC16Estimate: blocks B, G GPUs of one library, output layer present or not, projector on/off.
func VerifC16Estimate(B int, G int, lib int, withOutput int, withProj int) {
	envconfig.FlashAttention = func() bool { return false }
	vfOverhead = vfMem("overhead")
	envconfig.GpuOverhead = func() uint64 { return vfOverhead }

	var ts []*ggml.Tensor
	vfKV = make([]uint64, B)
	for i := 0; i < B; i++ {
		// kind 24 (I8): one byte per element, so Size() == extent
		ts = append(ts, &ggml.Tensor{Name: fmt.Sprintf("blk.%d.attn.weight", i), Kind: 24, Shape: []uint64{vfMem("layer")}})
		vfKV[i] = vfMem("kv")
	}
	if withOutput != 0 {
		ts = append(ts, &ggml.Tensor{Name: "output.weight", Kind: 24, Shape: []uint64{vfMem("output")}})
	}
	vfPartial, vfFull = vfMem("graphPartial"), vfMem("graphFull")
	vfProjW, vfProjG = 0, 0
	if withProj != 0 {
		vfProjW, vfProjG = vfMem("projW"), vfMem("projG")
	}
	kv := ggml.KV{"general.architecture": "x", "x.block_count": uint32(B), "x.attention.head_count": uint32(8), "x.attention.head_count_kv": uint32(8)}
	f := ggml.VerifNewGGML(kv, ts)

	gpus := make([]discover.GpuInfo, G)
	free := make([]uint64, G)
	for i := range gpus {
		gpus[i].Library = vfLibs[lib]
		gpus[i].ID = strconv.Itoa(i)
		free[i] = vfMem("free")
		gpus[i].FreeMemory = free[i]
		gpus[i].TotalMemory = vfLim
		gpus[i].MinimumMemory = vfMem("min")
	}
	opts := api.DefaultOptions()
	opts.NumGPU = verifNondetInt("numGPU")
	verifAssume(opts.NumGPU >= -1 && opts.NumGPU <= B+2)

	e := EstimateGPULayers(gpus, f, nil, opts, 1)
	verifReach("estimated")

	verifAssert(e.Layers >= 0 && e.Layers <= B+1, "layers-at-most-blocks-plus-output")
	if opts.NumGPU >= 0 {
		verifAssert(e.Layers <= opts.NumGPU, "layers-respect-num-gpu")
	}
	if vfLibs[lib] == "cpu" {
		verifAssert(e.Layers == 0 && e.VRAMSize == 0, "cpu-offloads-nothing")
	}
	verifAssert(e.TotalSize >= e.VRAMSize, "total-at-least-vram")
	var sum uint64
	for i, sz := range e.GPUSizes {
		sum += sz
		if sz > 0 && i < G {
			verifAssert(sz+vfOverhead <= free[i], "gpu-allocation-within-free-minus-overhead")
		}
	}
	if e.Layers > 0 {
		verifAssert(len(e.GPUSizes) == G, "one-size-per-gpu")
		verifAssert(sum == e.VRAMSize, "vram-is-sum-of-gpu-sizes")
	}
	if G > 1 && e.Layers > 0 {
		total := 0
		for _, p := range strings.Split(e.TensorSplit, ",") {
			n, err := strconv.Atoi(p)
			verifAssert(err == nil, "split-parses")
			total += n
		}
		verifAssert(total == e.Layers, "split-sums-to-layers")
	}

	fits, _ := PredictServerFit(gpus, f, nil, nil, opts, 1)
	if fits {
		verifReach("fits")
		if opts.NumGPU < 0 {
			verifAssert(e.Layers >= B+1, "fit-means-all-layers-placed")
		} else {
			verifAssert(e.Layers >= opts.NumGPU, "fit-means-requested-layers-placed")
		}
	}
}

// replacement for format.HumanBytes2 (log formatting only)
func vfHumanBytes2(b uint64) string { return "" }
