package ggml

// Overlay-only constructor so that a harness outside this package can build a GGML value
// with chosen metadata and tensors (nothing is committed to the repository).
func VerifNewGGML(kv KV, ts []*Tensor) *GGML {
	return &GGML{container: &containerGGUF{}, model: &gguf{containerGGUF: &containerGGUF{}, kv: kv, tensors: ts}}
}
