package ollamarunner

import (
	"sync"

	"golang.org/x/sync/semaphore"

	"github.com/ollama/ollama/kvcache"
	"github.com/ollama/ollama/ml"
	"github.com/ollama/ollama/model"
	"github.com/ollama/ollama/model/input"
	"github.com/ollama/ollama/sample"
)

// C07 harness: histories of completion requests through the real slot logic
// (LoadCacheSlot / findLongestCacheSlot / findBestCacheSlot / ShiftCacheSlot), the real
// Server.processBatch and the real kvcache.Causal, with a scripted model that checks, inside
// Forward, that the history the cache exposes for every batch row is exactly the inputs the
// runner has recorded for that slot (cached + pending up to that row).
//
// The fake tensors carry int32 payloads next to the float32 ones so that token ids and
// positions travel through the cache without floating point: the key of a token is the pair
// (token id, position); the shift function adds the position offsets to the second component.

type wBackend struct{ ml.Backend }

func (b *wBackend) NewContext() ml.Context        { return &wCtx{} }
func (b *wBackend) NewContextSize(int) ml.Context { return &wCtx{} }

type wCtx struct{ ml.Context }

func wNew(dtype ml.DType, shape ...int) *wTensor {
	total := 0
	if len(shape) > 0 {
		total = 1
		for _, s := range shape {
			total *= s
		}
	}
	return &wTensor{dtype: dtype, elementSize: 4, f: make([]float32, total), n: make([]int32, total), shape: shape}
}
func (c *wCtx) Empty(dtype ml.DType, shape ...int) ml.Tensor { return wNew(dtype, shape...) }
func (c *wCtx) Zeros(dtype ml.DType, shape ...int) ml.Tensor { return wNew(dtype, shape...) }
func (c *wCtx) FromFloatSlice(s []float32, shape ...int) (ml.Tensor, error) {
	t := wNew(ml.DTypeF32, shape...)
	copy(t.f, s)
	return t, nil
}
func (c *wCtx) FromIntSlice(s []int32, shape ...int) (ml.Tensor, error) {
	t := wNew(ml.DTypeI32, shape...)
	copy(t.n, s)
	return t, nil
}
func (c *wCtx) Input() ml.Context               { return c }
func (c *wCtx) Layer(int) ml.Context            { return c }
func (c *wCtx) Forward(...ml.Tensor) ml.Context { return c }
func (c *wCtx) Compute(...ml.Tensor)            {}
func (c *wCtx) Reserve() error                  { return nil }
func (c *wCtx) MaxGraphNodes() int              { return 10 }
func (c *wCtx) Close()                          {}

type wTensor struct {
	ml.Tensor
	dtype       ml.DType
	elementSize int
	f           []float32
	n           []int32
	shape       []int
}

func (t *wTensor) Dim(n int) int { return t.shape[n] }
func (t *wTensor) Stride(n int) int {
	s := t.elementSize
	for i := 0; i < n; i++ {
		s *= t.shape[i]
	}
	return s
}
func (t *wTensor) Shape() []int      { return t.shape }
func (t *wTensor) DType() ml.DType   { return t.dtype }
func (t *wTensor) Floats() []float32 { return t.f }
func (t *wTensor) View(ctx ml.Context, offset int, shape ...int) ml.Tensor {
	offset /= t.elementSize
	var s []int
	switch len(shape) {
	case 1:
		s = []int{shape[0]}
	case 5:
		s = []int{shape[0], shape[2], shape[4]}
	default:
		panic("wTensor.View: unsupported shape")
	}
	v := wNew(t.dtype, s...)
	v.f = t.f[offset : offset+len(v.f)]
	v.n = t.n[offset : offset+len(v.n)]
	return v
}
func (t *wTensor) Copy(ctx ml.Context, t2 ml.Tensor) ml.Tensor {
	o := t2.(*wTensor)
	copy(o.f, t.f)
	copy(o.n, t.n)
	return nil
}

// key layout: (token id, position) per token, one head
func wShift(ctx ml.Context, layer int, key, shift ml.Tensor) (ml.Tensor, error) {
	k, s := key.(*wTensor), shift.(*wTensor)
	out := wNew(k.dtype, k.shape...)
	copy(out.n, k.n)
	copy(out.f, k.f)
	for t := 0; t < len(s.n); t++ {
		out.n[2*t+1] += s.n[t]
	}
	return out, nil
}

type wModel struct {
	model.Base
	be  *wBackend
	srv *Server
}

func (m *wModel) Backend() ml.Backend                                { return m.be }
func (m *wModel) Encode(s string, addSpecial bool) ([]int32, error) { return nil, nil }
func (m *wModel) Decode(ids []int32) (string, error) {
	// token 1 prints "a", token 2 prints "b" (so that a stop string can span generated tokens)
	out := ""
	for _, id := range ids {
		if id == 1 {
			out += "a"
		} else {
			out += "b"
		}
	}
	return out, nil
}
func (m *wModel) Is(id int32, sp model.Special) bool                { return false }

func (m *wModel) Forward(ctx ml.Context, batch input.Batch) (ml.Tensor, error) {
	toks := batch.Inputs.(*wTensor).n
	nb := len(toks)
	key := wNew(ml.DTypeF32, 2, 1, nb)
	for i := 0; i < nb; i++ {
		key.n[2*i] = toks[i]
		key.n[2*i+1] = batch.Positions[i]
	}
	m.Cache.SetLayer(0)
	m.Cache.Put(ctx, key, key)
	hist, _, mask := m.Cache.Get(ctx)
	h := hist.(*wTensor)
	mk := mask.(*wTensor).f
	n := len(h.n) / 2
	verifAssert(len(mk) >= nb*n, "mask-covers-batch")

	// what the runner believes is the input of each row: recorded inputs of the slot + pending inputs up to the row
	seen := [4]int{}
	histLen := make([]int, nb)
	for i := 0; i < nb; i++ {
		slot := batch.Sequences[i]
		var seq *Sequence
		for _, s := range m.srv.seqs {
			if s != nil && s.cache.Id == slot {
				seq = s
			}
		}
		verifAssert(seq != nil, "batch-row-belongs-to-a-live-sequence")
		if seq == nil {
			continue
		}
		var want []int32
		for _, in := range seq.cache.Inputs {
			want = append(want, in.Token)
		}
		for _, in := range seq.pendingInputs[:seen[slot]+1] {
			want = append(want, in.Token)
		}
		seen[slot]++
		verifAssert(int(batch.Positions[i]) == len(want)-1, "position-is-index-of-the-input")
		covered := make([]int, len(want))
		for j := 0; j < n; j++ {
			if mk[i*n+j] != 0 {
				continue
			}
			p := int(h.n[2*j+1])
			inRange := p >= 0 && p < len(want)
			verifAssert(inRange, "model-is-shown-only-recorded-positions")
			if inRange {
				verifAssert(h.n[2*j] == want[p], "model-is-shown-the-recorded-token")
				covered[p]++
			}
		}
		for p := range covered {
			verifAssert(covered[p] == 1, "model-is-shown-every-recorded-input-once")
		}
		histLen[i] = len(want)
	}
	// next token: a fixed function of the length of the visible history (never EOS)
	logits := make([]float32, 3*len(batch.Outputs))
	for o, idx := range batch.Outputs {
		logits[3*o+1+histLen[idx]%2] = 1
	}
	return &wTensor{f: logits}, nil
}

func wSlotsConsistent(s *Server, ic *InputCache) {
	for si := range ic.slots {
		users := 0
		for _, sq := range s.seqs {
			if sq != nil && sq.cache == &ic.slots[si] {
				users++
			}
		}
		verifAssert(users <= 1, "slot-has-at-most-one-user")
		verifAssert((users == 1) == ic.slots[si].InUse, "in-use-flag-matches-ownership")
	}
}

// VerifC07Slots: nReq requests over 2 slots; numCtx 4, batch 2; prompts of 1..maxPrompt symbolic
// tokens over {1,2}; numKeep in {0,1}; numPredict up to maxPredict; solver-chosen number of batches
// between arrivals. multi = multi-user slot policy; canShift = cache has a shift function.
func VerifC07Slots(nReq int, maxPrompt int, maxPredict int, multi int, canShift int) {
	be := &wBackend{}
	fm := &wModel{be: be}
	var cache *kvcache.Causal
	if canShift != 0 {
		cache = kvcache.NewCausalCache(wShift)
	} else {
		cache = kvcache.NewCausalCache(nil)
	}
	fm.Cache = cache
	const numCtx, slots = 4, 2
	cache.Init(be, ml.DTypeF32, slots, numCtx, 2)
	ic := &InputCache{numCtx: numCtx, enabled: true, slots: []InputCacheSlot{{Id: 0}, {Id: 1}}, cache: cache, multiUserCache: multi&1 != 0}
	withStops := multi&2 != 0
	s := &Server{batchSize: 2, parallel: slots, seqs: make([]*Sequence, slots), seqsSem: semaphore.NewWeighted(slots), cache: ic, model: fm}
	s.cond = sync.NewCond(&s.mu)
	fm.srv = s

	run := func(steps int) {
		for i := 0; i < steps; i++ {
			live := false
			for _, sq := range s.seqs {
				if sq != nil {
					live = true
				}
			}
			if !live {
				return
			}
			err := s.processBatch()
			verifAssert(err == nil, "process-batch-no-error")
			wSlotsConsistent(s, ic)
		}
	}

	for r := 0; r < nReq; r++ {
		active := 0
		for _, sq := range s.seqs {
			if sq != nil {
				active++
			}
		}
		if active < slots {
			n := 1 + verifChoice(maxPrompt)
			in := make([]input.Input, n)
			for i := range in {
				t := verifNondetInt32("token")
				verifAssume(t == 1 || t == 2)
				in[i] = input.Input{Token: t}
			}
			seq := &Sequence{inputs: in, numPromptInputs: n, numPredict: 1 + verifChoice(maxPredict), numKeep: int32(verifChoice(2)),
				pendingResponses: []string{}, responses: make(chan string, 64), quit: make(chan bool, 1), embedding: make(chan []float32, 1),
				sampler: sample.NewSampler(0, 0, 0, 0, -1, nil)}
			if withStops {
				// the generated tokens alternate a, b: the stop spans two of them and trims the slot's record
				seq.stop = []string{"ab", "ba"}
			}
			s.seqsSem.TryAcquire(1)
			var err error
			seq.cache, seq.inputs, err = ic.LoadCacheSlot(seq.inputs)
			verifAssert(err == nil, "free-slot-is-found")
			if err != nil {
				return
			}
			// the slot handed out must not belong to a live sequence
			for _, sq := range s.seqs {
				verifAssert(sq == nil || sq.cache != seq.cache, "slot-in-use-not-given-to-second-request")
			}
			for i, sq := range s.seqs {
				if sq == nil {
					s.seqs[i] = seq
					break
				}
			}
		}
		run(verifChoice(3))
	}
	run(16)
	for _, sq := range s.seqs {
		verifAssert(sq == nil, "all-requests-finish")
	}
	verifReach("history-done")
}
