package llamarunner

import (
	"errors"

	"github.com/ollama/ollama/llama"
)

// C07, llama.cpp runner: the real InputCache of runner/llamarunner (LoadCacheSlot, findLongestCacheSlot,
// findBestCacheSlot with its fork, ShiftCacheSlot, ShiftDiscard, countCommonPrefix) over a MODEL of
// llama.cpp's KV cache (per sequence: the set of (position, token) cells; seq_rm / seq_cp / seq_add as
// documented in llama.h; partial removal and shifting may be unsupported, solver's choice). The
// harness plays processBatch's part: before an input is decoded it shifts when the slot is full, decoding
// adds the cell at position len(slot.Inputs), then the input is recorded.

type vkCell struct{ pos, tok int }

var (
	vkSeqs       map[int][]vkCell
	vkCanShift   bool
	vkPartialRm  bool
)

func vkRm(c *llama.Context, seqId int, p0 int, p1 int) bool {
	if p0 < 0 {
		p0 = 0
	}
	if p0 > 0 && !vkPartialRm && p1 < 0 {
		// a model that cannot erase a tail refuses unless everything goes
		return false
	}
	if p0 > 0 && !vkPartialRm && p1 >= 0 {
		return false
	}
	var keep []vkCell
	for _, x := range vkSeqs[seqId] {
		if x.pos >= p0 && (p1 < 0 || x.pos < p1) {
			continue
		}
		keep = append(keep, x)
	}
	vkSeqs[seqId] = keep
	return true
}

func vkCp(c *llama.Context, src int, dst int, p0 int, p1 int) {
	for _, x := range vkSeqs[src] {
		if x.pos >= p0 && (p1 < 0 || x.pos < p1) {
			vkSeqs[dst] = append(vkSeqs[dst], x)
		}
	}
}

func vkAdd(c *llama.Context, seqId int, p0 int, p1 int, delta int) {
	cells := vkSeqs[seqId]
	for i := range cells {
		if cells[i].pos >= p0 && (p1 < 0 || cells[i].pos < p1) {
			cells[i].pos += delta
		}
	}
}

func vkCanShiftFn(c *llama.Context) bool { return vkCanShift }

// the cache of every slot holds exactly the recorded inputs, at positions 0..n-1
func vkCheck(ic *InputCache, tag string) {
	for i := range ic.slots {
		s := &ic.slots[i]
		cells := vkSeqs[s.Id]
		ok := len(cells) == len(s.Inputs)
		for k := 0; ok && k < len(s.Inputs); k++ {
			found := 0
			for _, x := range cells {
				if x.pos == k && x.tok == s.Inputs[k].token {
					found++
				}
			}
			ok = found == 1
		}
		verifAssert(ok, tag)
	}
}

// decode one input into the slot, shifting first when the slot is full (processBatch's bookkeeping);
// returns the inputs the model was shown for this step (position, token)
func vkDecode(ic *InputCache, slot *InputCacheSlot, in input, numKeep int, depth int) {
	if len(slot.Inputs)+1 > ic.numCtx {
		err := ic.ShiftCacheSlot(slot, numKeep)
		var rep *ErrReprocessInputs
		if errors.As(err, &rep) {
			verifReach("reprocess")
			vkCheck(ic, "cache-holds-exactly-the-recorded-inputs")
			if depth < 2 {
				for _, r := range rep.Inputs {
					vkDecode(ic, slot, r, numKeep, depth+1)
				}
			}
		} else {
			verifAssert(err == nil, "shift-succeeds")
			verifReach("shifted")
		}
	}
	verifAssert(len(slot.Inputs) < ic.numCtx, "room-for-the-input-after-shifting")
	vkSeqs[slot.Id] = append(vkSeqs[slot.Id], vkCell{pos: len(slot.Inputs), tok: in.token})
	slot.Inputs = append(slot.Inputs, in)
}

// VerifC07LlamaSlots: nSlots slots of numCtx entries; nReq requests with prompts of up to maxPrompt
// tokens over a two-token alphabet, each followed by gen generated tokens; the previous request may
// still be in progress when the next one arrives.
func VerifC07LlamaSlots(nSlots, numCtx, nReq, maxPrompt, gen, multiUser int) {
	vkSeqs = map[int][]vkCell{}
	vkCanShift = verifChoice(2) == 1
	vkPartialRm = verifChoice(2) == 1
	ic, err := NewInputCache(new(llama.Context), nSlots*numCtx, nSlots, multiUser != 0)
	verifAssert(err == nil, "cache-created")
	var held *InputCacheSlot
	for r := 0; r < nReq; r++ {
		n := 1 + verifChoice(maxPrompt)
		prompt := make([]input, n)
		for i := range prompt {
			prompt[i] = input{token: 1 + verifChoice(2)}
		}
		numKeep := verifChoice(2) // keep nothing or the first input
		cachePrompt := true
		if r == 0 {
			cachePrompt = verifChoice(2) == 1
		}
		slot, rest, err := ic.LoadCacheSlot(prompt, cachePrompt)
		if err != nil {
			verifAssert(held != nil, "a-free-slot-is-found-when-one-exists")
			continue
		}
		verifReach("slot-loaded")
		verifAssert(slot != held, "slot-in-use-is-not-given-to-a-second-request")
		vkCheck(ic, "cache-holds-exactly-the-recorded-inputs")
		// what the model will have seen once the rest is decoded is the prompt
		verifAssert(len(slot.Inputs)+len(rest) == len(prompt), "cached-prefix-plus-rest-is-the-prompt")
		for i := range slot.Inputs {
			verifAssert(slot.Inputs[i].token == prompt[i].token, "cached-prefix-is-a-prefix-of-the-prompt")
		}
		for _, in := range rest {
			vkDecode(ic, slot, in, numKeep, 0)
			vkCheck(ic, "cache-holds-exactly-the-recorded-inputs")
		}
		for g := 0; g < gen; g++ {
			tok := 1 + (g+r)%2
			if g == 0 {
				tok = 1 + verifChoice(2)
			}
			vkDecode(ic, slot, input{token: tok}, numKeep, 0)
			vkCheck(ic, "cache-holds-exactly-the-recorded-inputs")
		}
		if held != nil {
			held.InUse = false
			held = nil
		}
		if r == 0 && verifChoice(2) == 1 {
			held = slot // still generating when the next request arrives
		} else {
			slot.InUse = false
		}
	}
	verifReach("history-done")
}
