package model

import (
	"path/filepath"
	"strings"
)

// reference predicate for one name part, written independently of isValidPart
func vfRefPart(kind int, s string) bool {
	maxLen := 80
	if kind == 0 {
		maxLen = 350
	}
	if len(s) < 1 || len(s) > maxLen {
		return false
	}
	ok := true
	for i := 0; i < len(s); i++ {
		c := s[i]
		alnum := c >= 'a' && c <= 'z' || c >= 'A' && c <= 'Z' || c >= '0' && c <= '9' || c == '_'
		allowed := alnum
		if i > 0 {
			if c == '-' {
				allowed = true
			}
			if c == '.' && kind != 1 {
				allowed = true
			}
			if c == ':' && (kind == 0 || kind == 4) {
				allowed = true
			}
		}
		if !allowed {
			ok = false
		}
	}
	return ok
}

// every string up to maxLen bytes, every kind: the validator agrees with the reference,
// and an accepted part can never act as a path traversal component.
func VerifC13Part(maxLen int, kind int) {
	s := verifNondetString("part", maxLen)
	got := isValidPart(partKind(kind), s)
	verifReach("validated")
	verifAssert(got == vfRefPart(kind, s), "validator-agrees-with-reference")
	if got {
		verifAssert(s != "." && s != "..", "no-dot-component")
		verifAssert(!strings.Contains(s, "/") && !strings.Contains(s, "\\") && !strings.Contains(s, "\x00"), "no-separator")
		verifAssert(s[0] != '.' && s[0] != '-', "first-byte-rule")
	}
}

func vfNoSep(s string) bool {
	return len(s) > 0 && s != "." && s != ".." && !strings.Contains(s, "/") && !strings.Contains(s, "\\") && !strings.Contains(s, "\x00")
}

// every name string up to maxLen bytes through the real parser
func VerifC13ParseName(maxLen int) {
	s := verifNondetString("name", maxLen)
	n := ParseName(s)
	if !n.IsValid() {
		return
	}
	verifReach("accepted")
	// path shape: four non-empty, separator-free, non-dot components
	verifAssert(vfNoSep(n.Host) && vfNoSep(n.Namespace) && vfNoSep(n.Model) && vfNoSep(n.Tag), "path-components-safe")
	verifAssert(n.IsFullyQualified(), "valid-implies-fully-qualified")
	// print/parse round trip
	p := ParseName(n.String())
	verifAssert(p == n, "roundtrip-string")
	// shortest display form reads back to the same model (case-insensitively for the elided defaults)
	d := ParseName(n.DisplayShortest())
	verifAssert(d.EqualFold(n), "roundtrip-display-shortest")
	verifAssert(d.Model == n.Model && d.Tag == n.Tag, "roundtrip-display-shortest-model-tag")
}

// the real Filepath() (filepath.Join/Clean) on accepted names
func VerifC13Filepath(maxLen int) {
	s := verifNondetString("name", maxLen)
	n := ParseName(s)
	if !n.IsValid() {
		return
	}
	fp := n.Filepath()
	verifReach("filepath")
	parts := strings.Split(fp, string(filepath.Separator))
	verifAssert(len(parts) == 4, "filepath-has-four-components")
	if len(parts) == 4 {
		verifAssert(parts[0] == n.Host && parts[1] == n.Namespace && parts[2] == n.Model && parts[3] == n.Tag, "filepath-components-are-the-parts")
	}
	verifAssert(!filepath.IsAbs(fp), "filepath-relative")
	// and back
	b := ParseNameFromFilepath(fp)
	verifAssert(b == n, "filepath-roundtrip")
}

// names differing only in letter case address the same model (EqualFold paths)
func VerifC13Case(maxLen int) {
	s := verifNondetString("name", maxLen)
	n := ParseName(s)
	if !n.IsValid() {
		return
	}
	u := ParseName(strings.ToUpper(s))
	verifReach("upper")
	verifAssert(u.IsValid(), "uppercase-variant-valid")
	if u.IsValid() {
		verifAssert(u.EqualFold(n) || !strings.EqualFold(u.Host, n.Host), "case-variants-equalfold")
	}
}
