package blob

import (
	"strings"
)

func vfIsHex(c byte) bool {
	return c >= '0' && c <= '9' || c >= 'a' && c <= 'f' || c >= 'A' && c <= 'F'
}

// every digest string up to maxLen bytes (73 = one more than the longest accepted form)
func VerifC13Digest(maxLen int) {
	s := verifNondetString("digest", maxLen)
	d, err := ParseDigest(s)
	if err != nil {
		return
	}
	verifReach("accepted")
	verifAssert(len(s) == 71, "accepted-length")
	if len(s) != 71 {
		return
	}
	verifAssert(s[:6] == "sha256" && (s[6] == ':' || s[6] == '-'), "accepted-prefix")
	hexOK := true
	for i := 7; i < 71; i++ {
		if !vfIsHex(s[i]) {
			hexOK = false
		}
	}
	verifAssert(hexOK, "accepted-hex")
	// print/parse round trip
	p, err2 := ParseDigest(d.String())
	verifAssert(err2 == nil && p == d, "roundtrip")
	// the file derived from it lies directly under <dir>/blobs with a separator-free base name
	c := &DiskCache{dir: "/models"}
	f := c.GetFile(d)
	verifAssert(strings.HasPrefix(f, "/models/blobs/sha256-"), "file-under-blobs")
	base := f[len("/models/blobs/"):]
	verifAssert(len(base) == 71 && !strings.Contains(base, "/") && !strings.Contains(base, ".."), "file-base-name-safe")
}

// names given to the cache: accepted => path of exactly four safe components
func VerifC13NameToPath(maxLen int) {
	s := verifNondetString("name", maxLen)
	p, err := nameToPath(s)
	if err != nil {
		return
	}
	verifReach("accepted")
	parts := strings.Split(p, "/")
	verifAssert(len(parts) == 4, "four-components")
	for _, q := range parts {
		verifAssert(q != "" && q != "." && q != ".." && !strings.Contains(q, "\\") && !strings.Contains(q, "\x00"), "component-safe")
	}
	verifAssert(!strings.HasPrefix(p, "/"), "relative")
}

// ---- names differing only in letter case address the same manifest ----

var vfLink string

// replacement for (*DiskCache).links: the directory holds one manifest, stored under an arbitrary
// case variant of the name that is looked up
var vfSibling string // a second manifest in the directory ("" = none)

func vfLinks(c *DiskCache) func(yield func(string, error) bool) {
	return func(yield func(string, error) bool) {
		// lexical (byte-wise) order, as fs.Glob returns the directory
		if vfSibling != "" && vfSibling < vfLink {
			if !yield(vfSibling, nil) {
				return
			}
		}
		if !yield(vfLink, nil) {
			return
		}
		if vfSibling != "" && !(vfSibling < vfLink) {
			yield(vfSibling, nil)
		}
	}
}

func vfFlipCase(base string, from int, tag string) string {
	b := []byte(base)
	for i := from; i < len(b); i++ {
		ch := b[i]
		letter := ch >= 'a' && ch <= 'z' || ch >= 'A' && ch <= 'Z'
		if letter && verifNondetBool(tag) {
			b[i] = ch ^ 0x20
		}
	}
	return string(b)
}

// VerifC13CaseLookupSibling: the directory holds the manifest of h/n/m:t under an arbitrary spelling AND a
// second manifest (another tag or model, in upper or lower case, sorting before or after it): every
// spelling of the name still addresses the stored manifest.
func VerifC13CaseLookupSibling() {
	vfLink = vfFlipCase("manifests/h/n/m/t", len("manifests/"), "stored")
	vfSibling = []string{"manifests/H/N/M/U", "manifests/h/n/m/s", "manifests/H/N/L/T", "manifests/h/n/m-x/t", "manifests/h/n/Zeta/t"}[verifChoice(5)]
	name := vfFlipCase("h/n/m:t", 0, "asked")
	c := &DiskCache{dir: "/cache"}
	got, err := c.manifestPath(name)
	verifReach("looked-up")
	verifAssert(err == nil, "lookup-succeeds")
	verifAssert(got == "/cache/"+vfLink, "case-variant-addresses-the-stored-manifest")
}

func VerifC13CaseLookup(maxLen int) {
	s := verifNondetString("name", maxLen)
	np, err := nameToPath(s)
	if err != nil {
		return
	}
	// the stored spelling: every letter may have the other case
	b := []byte("manifests/" + np)
	for i := len("manifests/"); i < len(b); i++ {
		ch := b[i]
		letter := ch >= 'a' && ch <= 'z' || ch >= 'A' && ch <= 'Z'
		if letter && verifNondetBool("flip") {
			b[i] = ch ^ 0x20
		}
	}
	vfLink, vfSibling = string(b), ""
	c := &DiskCache{dir: "/cache"}
	got, err := c.manifestPath(s)
	verifReach("looked-up")
	verifAssert(err == nil, "lookup-succeeds")
	verifAssert(got == "/cache/"+vfLink, "case-variant-addresses-the-stored-manifest")
}
