package server

import (
	"os"
	"strings"
)

func vfModels() string                               { return "/models" }
func vfMkdirAllOK(path string, perm os.FileMode) error { return nil }

func vfHexDigit(c byte) bool {
	return c >= '0' && c <= '9' || c >= 'a' && c <= 'f' || c >= 'A' && c <= 'F'
}

// every digest string up to maxLen bytes through the legacy path builder
func VerifC13BlobsPath(maxLen int) {
	d := verifNondetString("digest", maxLen)
	verifAssume(len(d) > 0)
	p, err := GetBlobsPath(d)
	if err != nil {
		return
	}
	verifReach("accepted")
	verifAssert(len(d) == 71, "accepted-digest-length")
	verifAssert(strings.HasPrefix(p, "/models/blobs/sha256-"), "blob-path-under-blobs")
	verifAssert(len(p) == len("/models/blobs/")+71, "blob-path-fixed-depth")
	base := p[len("/models/blobs/"):]
	verifAssert(!strings.Contains(base, "/") && !strings.Contains(base, "..") && !strings.Contains(base, "\x00"), "blob-base-name-safe")
	ok := len(d) == 71
	for i := 7; ok && i < 71; i++ {
		if !vfHexDigit(d[i]) {
			ok = false
		}
	}
	verifAssert(ok, "accepted-digest-is-hex")
}

// every name string up to maxLen bytes through the legacy model-path parser
func VerifC13ManifestPath(maxLen int) {
	s := verifNondetString("name", maxLen)
	mp := ParseModelPath(s)
	p, err := mp.GetManifestPath()
	if err != nil {
		return
	}
	verifReach("accepted")
	verifAssert(strings.HasPrefix(p, "/models/manifests/"), "manifest-path-under-manifests")
	rest := strings.Split(p[len("/models/manifests/"):], "/")
	verifAssert(len(rest) == 4, "manifest-path-fixed-depth")
	for _, q := range rest {
		verifAssert(q != "" && q != "." && q != "..", "manifest-path-component-safe")
	}
}
