package names

import (
	"strings"

	"github.com/ollama/ollama/types/model"
)

func vfSafe(s string) bool {
	return len(s) > 0 && s != "." && s != ".." && !strings.Contains(s, "/") && !strings.Contains(s, "\\") && !strings.Contains(s, "\x00")
}

// every string up to maxLen bytes through the second parser: an accepted name has safe parts,
// survives print/parse, and is read with the same parts by the first parser (types/model).
func VerifC13NamesParse(maxLen int) {
	s := verifNondetString("name", maxLen)
	x := Parse(s)
	if !x.IsValid() {
		return
	}
	verifReach("accepted")
	verifAssert(vfSafe(x.m), "model-part-safe")
	verifAssert(x.h == "" || vfSafe(x.h), "host-part-safe")
	verifAssert(x.n == "" || vfSafe(x.n), "namespace-part-safe")
	verifAssert(x.t == "" || vfSafe(x.t), "tag-part-safe")
	y := Parse(x.String())
	rt := y.h == x.h && y.n == x.n && y.m == x.m && y.t == x.t
	if x.h != "" && x.n == "" {
		// known-finding class: IsValid accepts a host without a namespace ("2//0"), which prints as "2/0"
		// and reads back as namespace "2"
		verifAssert(rt, "roundtrip-string@host-without-namespace")
	} else {
		verifAssert(rt, "roundtrip-string")
	}
	if x.IsFullyQualified() {
		verifReach("fully-qualified")
		m := model.ParseNameBare(x.String())
		verifAssert(m.IsFullyQualified(), "other-parser-accepts")
		verifAssert(m.Host == x.h && m.Namespace == x.n && m.Model == x.m && m.Tag == x.t, "other-parser-same-parts")
	}
}

// the converse: a fully qualified types/model name printed is read with the same parts here
func VerifC13ModelToNames(maxLen int) {
	s := verifNondetString("name", maxLen)
	m := model.ParseNameBare(s)
	if !m.IsFullyQualified() {
		return
	}
	verifReach("fully-qualified")
	x := Parse(m.String())
	verifAssert(x.IsFullyQualified(), "other-parser-accepts")
	verifAssert(m.Host == x.h && m.Namespace == x.n && m.Model == x.m && m.Tag == x.t, "other-parser-same-parts")
}

// Split (scheme, name, digest) never loses or invents bytes
func VerifC13Split(maxLen int) {
	s := verifNondetString("ext", maxLen)
	scheme, name, digest := Split(s)
	verifReach("split")
	verifAssert(len(scheme)+len(name)+len(digest) <= len(s), "split-parts-fit")
	verifAssert(!strings.Contains(digest, "@"), "digest-has-no-at")
	if !strings.Contains(s, "://") {
		verifAssert(scheme == "", "no-scheme-without-separator")
	}
}
