package server

import "strings"

// C03 clause 1: no registry response crashes the challenge parser.
// header: arbitrary string up to maxLen bytes; the key is one of the three real keys.
func VerifC03GetValue(maxLen int, key int) {
	header := verifNondetString("header", maxLen)
	k := []string{"realm", "service", "scope"}[key]
	v := getValue(header, k)
	verifReach("returned")
	verifAssert(len(v) <= len(header), "result-not-longer-than-header")
	verifAssert(strings.Contains(header, v), "result-is-substring")
}

// the caller as the server uses it: the whole Www-Authenticate header
func VerifC03Challenge(maxLen int) {
	header := verifNondetString("header", maxLen)
	c := parseRegistryChallenge(header)
	verifReach("parsed")
	verifAssert(len(c.Realm) <= len(header), "realm-length")
}
