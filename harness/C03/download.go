package server

import (
	"context"
	"errors"
	"io/fs"
	"net/url"
	"os"
	"sync"
	"time"

	"github.com/ollama/ollama/api"
)

// C03 "a later retry can still succeed": the REAL downloadBlob (cache-hit test, de-duplication through
// blobDownloadManager, Prepare / Run / Wait protocol) over a history of attempts. Prepare and Run are
// replaced by stubs with arbitrary outcomes (their bodies are HTTP and file I/O); the download manager
// (a sync.Map) is modelled by a plain map; Wait is the real function.

var (
	vfMgr      map[string]any
	vfPrepares int
	// well-formed digests (the real GetBlobsPath, stubbed here because it touches the file system, rejects anything else)
	vfDL = []string{
		"sha256:aaaaaaaaaaaaaaaaaaaaaaaaaaaaaaaaaaaaaaaaaaaaaaaaaaaaaaaaaaaaaaaa",
		"sha256:bbbbbbbbbbbbbbbbbbbbbbbbbbbbbbbbbbbbbbbbbbbbbbbbbbbbbbbbbbbbbbbb",
	}
)

// (sync.Map operations are atomic and synchronise: the model takes a lock around each)
var vfMgrMu sync.Mutex

func vfMgrLoadOrStore(m *sync.Map, key, value any) (any, bool) {
	vfMgrMu.Lock()
	defer vfMgrMu.Unlock()
	k := key.(string)
	if v, ok := vfMgr[k]; ok {
		return v, true
	}
	vfMgr[k] = value
	return value, false
}

func vfMgrDelete(m *sync.Map, key any) {
	vfMgrMu.Lock()
	defer vfMgrMu.Unlock()
	if k, ok := key.(string); ok {
		delete(vfMgr, k)
	}
}

type vfFileInfo struct{}

func (vfFileInfo) Name() string       { return "blob" }
func (vfFileInfo) Size() int64        { return 10 }
func (vfFileInfo) Mode() fs.FileMode  { return 0o644 }
func (vfFileInfo) ModTime() time.Time { return time.Time{} }
func (vfFileInfo) IsDir() bool        { return false }
func (vfFileInfo) Sys() any           { return nil }

// which caller is looking, and what it saw (no scheduling point lies between a caller setting vfCaller and
// the os.Stat at the top of downloadBlob)
var (
	vfCaller  int
	vfStatSaw [4]bool
)

func vfStat(name string) (os.FileInfo, error) {
	for _, d := range vfDL {
		if name == "/models/blobs/"+d && vfPresent[d] {
			vfStatSaw[vfCaller] = true
			return vfFileInfo{}, nil
		}
	}
	vfStatSaw[vfCaller] = false
	return nil, os.ErrNotExist
}

func vfPrepare(b *blobDownload, ctx context.Context, requestURL *url.URL, opts *registryOptions) error {
	vfPrepares++
	if verifChoice(2) == 1 {
		return errors.New("HEAD request failed")
	}
	return nil
}

func vfRun(b *blobDownload, ctx context.Context, requestURL *url.URL, opts *registryOptions) {
	b.CancelFunc = func() {}
	if verifChoice(2) == 1 {
		b.err = errors.New("download failed")
	} else {
		vfPresent[b.Digest], vfGood[b.Digest] = true, true
	}
	vfMgrDelete(nil, b.Digest) // as the real run does (deferred)
	close(b.done)
}

func vfNewTicker(d time.Duration) *time.Ticker {
	return &time.Ticker{C: make(chan time.Time)} // progress ticks are not modelled
}

// VerifC03DownloadRetry: a history of downloadBlob calls over two digests; every Prepare and Run outcome.
func VerifC03DownloadRetry(attempts int) {
	vfMgr, vfPrepares = map[string]any{}, 0
	vfPresent, vfGood = map[string]bool{}, map[string]bool{}
	ctx := context.Background()
	for k := 0; k < attempts; k++ {
		d := vfDL[verifChoice(2)]
		was := vfPresent[d]
		before := vfPrepares
		hit, err := downloadBlob(ctx, downloadOpts{mp: ModelPath{Namespace: "library", Repository: "m"}, digest: d, regOpts: &registryOptions{}, fn: func(api.ProgressResponse) {}})
		verifReach("download-returned")
		verifAssert(hit == was, "cache-hit-iff-blob-was-present")
		if !was {
			// nothing is in flight between attempts: a new attempt starts a new download
			verifAssert(vfPrepares == before+1, "retry-starts-a-fresh-download")
			verifAssert((err == nil) == vfPresent[d], "download-success-iff-blob-stored")
		} else {
			verifAssert(err == nil, "cache-hit-is-not-an-error")
		}
		verifAssert(len(vfMgr) == 0, "no-stale-download-registration-between-attempts")
	}
}

// ---- C15: the transfer manager is single-flight under concurrency ----

var (
	vfRunning   map[string]int
	vfPreparing map[string]int
	vfSlowIO    bool
)

func vfMgrLoad(m *sync.Map, key any) (any, bool) {
	vfMgrMu.Lock()
	defer vfMgrMu.Unlock()
	v, ok := vfMgr[key.(string)]
	return v, ok
}

func vfMgrStore(m *sync.Map, key, value any) {
	vfMgrMu.Lock()
	defer vfMgrMu.Unlock()
	vfMgr[key.(string)] = value
}

func vfPrepareC(b *blobDownload, ctx context.Context, requestURL *url.URL, opts *registryOptions) error {
	verifAssert(vfPreparing[b.Digest] == 0 && vfRunning[b.Digest] == 0, "two-transfers-of-one-digest-in-flight")
	vfPreparing[b.Digest]++
	verifYield() // the HEAD request is a network round trip
	vfPreparing[b.Digest]--
	return vfPrepare(b, ctx, requestURL, opts)
}

func vfRunC(b *blobDownload, ctx context.Context, requestURL *url.URL, opts *registryOptions) {
	verifAssert(vfRunning[b.Digest] == 0, "two-transfers-of-one-digest-in-flight")
	vfRunning[b.Digest]++
	verifYield() // the transfer takes time
	vfRunning[b.Digest]--
	vfRun(b, ctx, requestURL, opts)
}

// VerifC15DownloadConcurrent: n concurrent downloadBlob calls for one digest: at any moment at most one
// transfer (Prepare or Run) of that digest is in flight, and every caller gets an answer.
func VerifC15DownloadConcurrent(n int) {
	vfMgr, vfPrepares = map[string]any{}, 0
	vfPresent, vfGood = map[string]bool{}, map[string]bool{}
	vfRunning, vfPreparing = map[string]int{}, map[string]int{}
	done := make(chan bool, n)
	for i := 0; i < n; i++ {
		go func() {
			vfCaller = i
			hit, err := downloadBlob(context.Background(), downloadOpts{mp: ModelPath{Namespace: "library", Repository: "m"}, digest: vfDL[0], regOpts: &registryOptions{}, fn: func(api.ProgressResponse) {}})
			// "cache hit" tells PullModel that the blob was there (and verified) before this pull: a caller
			// that waited for a transfer, its own or one it joined, must not get it
			verifAssert(hit == vfStatSaw[i], "cache-hit-only-if-the-blob-was-there-when-the-call-looked")
			done <- err == nil
		}()
	}
	for i := 0; i < n; i++ {
		<-done
	}
	verifReach("all-downloads-returned")
	verifAssert(len(vfMgr) == 0, "no-stale-download-registration-between-attempts")
}
