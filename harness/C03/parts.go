package server

import (
	"context"
	"io"
	"net/http"
	"net/url"
)

// C03 "every blob size/part layout": the REAL blobDownload.Prepare for a fresh download. The registry's
// Content-Length is an arbitrary int64 (the header text itself is not modelled: strconv.ParseInt is
// replaced by "any value"), part files are not written.

var vfContentLength int64

func vfGlobNone(pattern string) ([]string, error) { return nil, nil }

type vfBodyP struct{}

func (vfBodyP) Read(p []byte) (int, error) { return 0, io.EOF }
func (vfBodyP) Close() error               { return nil }

func vfHeadRequest(ctx context.Context, method string, requestURL *url.URL, headers http.Header, body io.ReadSeeker, regOpts *registryOptions) (*http.Response, error) {
	return &http.Response{StatusCode: 200, Header: http.Header{}, Body: vfBodyP{}}, nil
}

func vfHeaderGet(h http.Header, key string) string                  { return "" }
func vfParseInt(s string, base int, bitSize int) (int64, error)     { return vfContentLength, nil }
func vfWritePart(b *blobDownload, name string, p *blobDownloadPart) error { return nil }
func vfHumanBytes(n int64) string                                   { return "x" }

// VerifC03Parts: for every Content-Length up to maxTotal the parts tile [0, total) exactly.
func VerifC03Parts(maxGB int) {
	vfContentLength = verifNondetInt64("content-length")
	verifAssume(vfContentLength <= int64(maxGB)*1000*1000*1000) // stated bound (the number of parts grows with the size)
	b := &blobDownload{Name: "/models/blobs/x", Digest: "sha256:aaaaaaaaaaaaaaaaaaaaaaaaaaaaaaaaaaaaaaaaaaaaaaaaaaaaaaaaaaaaaaaa", done: make(chan struct{})}
	err := b.Prepare(context.Background(), &url.URL{Scheme: "https", Host: "registry.example"}, &registryOptions{})
	verifReach("prepared")
	verifAssert(err == nil, "prepare-no-error")
	total := vfContentLength
	verifAssert(b.Total == total, "total-is-content-length")
	if total <= 0 {
		verifAssert(len(b.Parts) == 0, "no-parts-for-an-empty-or-negative-length")
		return
	}
	verifReach("has-parts")
	var end int64
	for i, p := range b.Parts {
		verifAssert(p.N == i, "part-numbered-by-position")
		verifAssert(p.Offset == end, "parts-contiguous-from-zero")
		verifAssert(p.Size > 0, "part-not-empty")
		verifAssert(p.Size <= maxDownloadPartSize, "part-within-maximum-size")
		end = p.Offset + p.Size
	}
	verifAssert(end == total, "parts-cover-exactly-the-blob")
}
