package server

import (
	"context"
	"errors"
	"io"
	"net/http"
	"net/url"
	"os"

	"github.com/ollama/ollama/api"
	"github.com/ollama/ollama/envconfig"
	"github.com/ollama/ollama/types/model"
)

// C03 clause 2 / C09 clause (a): effect ordering of the real PullModel / PushModel with all I/O
// replaced by recording stubs whose results are arbitrary: manifest (layers drawn from three digest
// constants, so layers may coincide), per-layer download result (cache hit / error), per-layer
// verification result, manifest write result.

type vfEvent struct {
	kind   string // download, verify, remove, write-manifest, prune, upload, put-manifest, success
	digest string
	ok     bool
	hit    bool
	good   bool // download: the stored bytes match the digest
}

var (
	vfTrace   []vfEvent
	vfDigests = []string{"sha256:aaaa", "sha256:bbbb", "sha256:cccc"}
	vfNew     *Manifest
	vfOld     *Manifest
	vfPresent map[string]bool // blobs present in the store (model of the blobs directory)
	vfGood    map[string]bool // blobs whose content matches their digest
)

func vfArbManifest(tag string, maxLayers int) *Manifest {
	m := &Manifest{SchemaVersion: 2}
	n := verifChoice(maxLayers + 1)
	for i := 0; i < n; i++ {
		m.Layers = append(m.Layers, Layer{MediaType: "application/vnd.ollama.image.model", Digest: vfDigests[verifChoice(len(vfDigests))], Size: 10})
	}
	if verifChoice(2) == 1 {
		m.Config = Layer{MediaType: "application/vnd.docker.container.image.v1+json", Digest: vfDigests[verifChoice(len(vfDigests))], Size: 5}
	}
	return m
}

func vfGetManifest(mp ModelPath) (*Manifest, string, error) {
	if vfOld == nil {
		return nil, "", os.ErrNotExist
	}
	return vfOld, "", nil
}

func vfPullModelManifest(ctx context.Context, mp ModelPath, regOpts *registryOptions) (*Manifest, error) {
	if verifChoice(2) == 1 {
		return nil, errors.New("registry error")
	}
	return vfNew, nil
}

// the blob store as downloadBlob sees it: a blob already present is a cache hit; otherwise the download
// fails or stores a blob that is intact or corrupt (solver's choice)
func vfDownloadBlob(ctx context.Context, opts downloadOpts) (bool, error) {
	if vfPresent[opts.digest] {
		vfTrace = append(vfTrace, vfEvent{kind: "download", digest: opts.digest, ok: true, hit: true})
		return true, nil
	}
	switch verifChoice(3) {
	case 0:
		vfTrace = append(vfTrace, vfEvent{kind: "download", digest: opts.digest, ok: false})
		return false, errors.New("download failed")
	case 1:
		vfPresent[opts.digest], vfGood[opts.digest] = true, true
	case 2:
		vfPresent[opts.digest], vfGood[opts.digest] = true, false // flipped byte on the way
	}
	vfTrace = append(vfTrace, vfEvent{kind: "download", digest: opts.digest, ok: true, hit: false, good: vfGood[opts.digest]})
	return false, nil
}

// verifyBlob itself is the REAL function; only what it touches is modelled: opening the blob file and
// hashing what was opened.
var vfOpened string

func vfOpen(name string) (*os.File, error) {
	vfOpened = ""
	for _, d := range vfDigests {
		if name == "/models/blobs/"+d {
			if !vfPresent[d] {
				vfTrace = append(vfTrace, vfEvent{kind: "verify", digest: d, ok: false})
				return nil, os.ErrNotExist
			}
			vfOpened = d
		}
	}
	return new(os.File), nil
}

func vfSHA256(r io.Reader) (string, int64) {
	ok := vfOpened != "" && vfGood[vfOpened]
	vfTrace = append(vfTrace, vfEvent{kind: "verify", digest: vfOpened, ok: ok})
	if ok {
		return vfOpened, 10
	}
	return "sha256:0bad", 10
}

// what Manifests sees in the C12 harness (which runs the REAL deleteUnusedLayers): the one model of the
// scenario, i.e. the manifest its name resolves to right now
var vfCur *Manifest

func vfManifestsPull(continueOnError bool) (map[model.Name]*Manifest, error) {
	ms := map[model.Name]*Manifest{}
	if vfCur != nil {
		cp := *vfCur
		cp.filepath = "/models/manifests/x"
		ms[model.Name{Host: "registry.example", Namespace: "library", Model: "m", Tag: "latest"}] = &cp
	}
	return ms, nil
}

func vfGetBlobsPath(digest string) (string, error) { return "/models/blobs/" + digest, nil }

func vfRemoveFile(name string) error {
	for _, d := range vfDigests {
		if name == "/models/blobs/"+d {
			vfPresent[d] = false
			vfTrace = append(vfTrace, vfEvent{kind: "remove", digest: d, ok: true})
		}
	}
	return nil
}
func vfMkdirAll(path string, perm os.FileMode) error { return nil }
func vfWriteFile(name string, data []byte, perm os.FileMode) error {
	ok := verifChoice(2) == 0
	vfTrace = append(vfTrace, vfEvent{kind: "write-manifest", ok: ok})
	if !ok {
		return errors.New("disk full")
	}
	vfCur = vfNew
	return nil
}
func vfMarshal(v any) ([]byte, error)                   { return []byte("{}"), nil }
func vfManifestPath(mp ModelPath) (string, error)       { return "/models/manifests/x", nil }
func vfDeleteUnusedLayers(m map[string]struct{}) error {
	for d := range m {
		vfTrace = append(vfTrace, vfEvent{kind: "prune", digest: d})
	}
	return nil
}

func vfLayersOf(m *Manifest) []string {
	var ds []string
	for _, l := range m.Layers {
		ds = append(ds, l.Digest)
	}
	if m.Config.Digest != "" {
		ds = append(ds, m.Config.Digest)
	}
	return ds
}

// VerifC03PullOrder: every manifest of up to maxLayers layers (+ optional config), every previous
// manifest (absent or arbitrary), every initial blob store, every download / verification / write outcome.
func VerifC03PullOrder(maxLayers int) {
	vfTrace = nil
	vfPresent, vfGood = map[string]bool{}, map[string]bool{}
	for _, d := range vfDigests {
		if verifChoice(2) == 1 { // blob already in the store from an earlier, verified pull
			vfPresent[d], vfGood[d] = true, true
		}
	}
	vfOld = nil
	if verifChoice(2) == 1 {
		vfOld = vfArbManifest("old", 2)
	}
	vfNew = vfArbManifest("new", maxLayers)
	envconfig.NoPrune = func() bool { return false }
	var progress []string
	err := PullModel(context.Background(), "registry.example/library/m:latest", &registryOptions{}, func(r api.ProgressResponse) {
		progress = append(progress, r.Status)
	})
	verifReach("pull-returned")

	// walk the effect trace; on every prefix: a manifest exists only if every layer it names is present and intact
	written := 0
	for _, e := range vfTrace {
		if e.kind == "write-manifest" && e.ok {
			written++
		}
	}
	verifAssert(written <= 1, "manifest-written-at-most-once")
	verifAssert((err == nil) == (written == 1), "success-iff-manifest-written")
	if written == 1 {
		verifReach("manifest-written")
		for _, d := range vfLayersOf(vfNew) {
			verifAssert(vfPresent[d], "published-model-has-every-layer-present")
			verifAssert(vfGood[d], "published-model-has-every-layer-intact")
		}
		// pruning never removes a layer of the manifest just written, and happens after the write
		seenWrite := false
		for _, e := range vfTrace {
			if e.kind == "write-manifest" && e.ok {
				seenWrite = true
			}
			if e.kind == "prune" {
				verifAssert(seenWrite, "prune-only-after-manifest-write")
				for _, d := range vfLayersOf(vfNew) {
					verifAssert(e.digest != d, "prune-spares-layers-of-the-new-manifest")
				}
			}
		}
		verifAssert(len(progress) > 0 && progress[len(progress)-1] == "success", "success-reported-last")
	} else {
		for _, p := range progress {
			verifAssert(p != "success", "no-success-progress-on-failure")
		}
		// a corrupt blob that was detected does not stay in the store
		for i, e := range vfTrace {
			if e.kind == "verify" && !e.ok && vfPresent[e.digest] {
				removed := false
				for _, f := range vfTrace[i:] {
					if f.kind == "remove" && f.digest == e.digest {
						removed = true
					}
				}
				verifAssert(removed || !vfPresent[e.digest], "mismatching-blob-is-removed")
			}
		}
	}
}

// VerifC03PullTwice: a history of two pull attempts of one manifest into an initially empty store (no
// previous manifest): the second attempt meets whatever the first one left behind.
func VerifC03PullTwice(maxLayers int) {
	vfPresent, vfGood = map[string]bool{}, map[string]bool{}
	vfOld = nil
	vfNew = &Manifest{SchemaVersion: 2}
	n := 1 + verifChoice(maxLayers)
	for i := 0; i < n; i++ {
		vfNew.Layers = append(vfNew.Layers, Layer{MediaType: "application/vnd.ollama.image.model", Digest: vfDigests[verifChoice(len(vfDigests))], Size: 10})
	}
	envconfig.NoPrune = func() bool { return false }
	for attempt := 0; attempt < 2; attempt++ {
		vfTrace = nil
		err := PullModel(context.Background(), "registry.example/library/m:latest", &registryOptions{}, func(r api.ProgressResponse) {})
		verifReach("pull-returned")
		if err == nil {
			verifReach("pull-succeeded")
			tag := "published-model-has-every-layer-intact"
			if attempt > 0 {
				// known-finding class: blobs left by an earlier attempt that ended before verifying them
				tag += "@left-unverified-by-an-earlier-attempt"
			}
			for _, d := range vfLayersOf(vfNew) {
				verifAssert(vfPresent[d], "published-model-has-every-layer-present")
				verifAssert(vfGood[d], tag)
			}
			return
		}
	}
}

// ---- C12 (pull): the process may die between any two effects ----

// VerifC12PullCrash: one pull over a store in which the name resolves to an intact previous model (or to
// nothing). The effect trace of the real PullModel is replayed event by event; after EVERY prefix - a
// point at which the process may be killed - the manifest the name resolves to at that moment (the old
// one before the manifest write, the new one after it) has all its layers present and intact.
func VerifC12PullCrash(maxLayers int) {
	vfTrace = nil
	vfPresent, vfGood = map[string]bool{}, map[string]bool{}
	for _, d := range vfDigests {
		if verifChoice(2) == 1 {
			vfPresent[d], vfGood[d] = true, true
		}
	}
	vfOld = nil
	if verifChoice(2) == 1 {
		vfOld = vfArbManifest("old", 2)
		for _, d := range vfLayersOf(vfOld) {
			verifAssume(vfPresent[d]) // the previous model is intact (that is what the property preserves)
		}
	}
	vfNew = vfArbManifest("new", maxLayers)
	// the store as it was before the operation
	present0, good0 := map[string]bool{}, map[string]bool{}
	for _, d := range vfDigests {
		present0[d], good0[d] = vfPresent[d], vfGood[d]
	}
	envconfig.NoPrune = func() bool { return false }
	vfCur = vfOld
	PullModel(context.Background(), "registry.example/library/m:latest", &registryOptions{}, func(r api.ProgressResponse) {})
	verifReach("pull-returned")
	cur := vfOld
	check := func(tag string) {
		if cur == nil {
			return
		}
		for _, d := range vfLayersOf(cur) {
			verifAssert(present0[d], tag+"-present")
			verifAssert(good0[d], tag+"-intact")
		}
	}
	check("before-the-pull-resolvable-model-has-every-layer")
	for _, e := range vfTrace {
		switch e.kind {
		case "download":
			if e.ok && !e.hit {
				present0[e.digest], good0[e.digest] = true, e.good
			}
		case "remove", "prune":
			present0[e.digest] = false
		case "write-manifest":
			if e.ok {
				cur = vfNew
				verifReach("manifest-replaced")
			}
		}
		check("at-every-crash-point-resolvable-model-has-every-layer")
	}
}

// ---- push ----

func vfUploadBlob(ctx context.Context, mp ModelPath, layer Layer, opts *registryOptions, fn func(api.ProgressResponse)) error {
	ok := verifChoice(2) == 0
	vfTrace = append(vfTrace, vfEvent{kind: "upload", digest: layer.Digest, ok: ok})
	if !ok {
		return errors.New("upload failed")
	}
	return nil
}

type vfBody struct{}

func (vfBody) Read(p []byte) (int, error) { return 0, io.EOF }
func (vfBody) Close() error               { return nil }

func vfMakeRequest(ctx context.Context, method string, requestURL *url.URL, headers http.Header, body io.ReadSeeker, regOpts *registryOptions) (*http.Response, error) {
	ok := verifChoice(2) == 0
	vfTrace = append(vfTrace, vfEvent{kind: "put-manifest", ok: ok})
	if !ok {
		return nil, errors.New("registry refused")
	}
	return &http.Response{Body: vfBody{}}, nil
}

func vfBaseURL(mp ModelPath) *url.URL { return &url.URL{Scheme: "https", Host: "registry.example"} }
func vfJoinPath(u *url.URL, elem ...string) *url.URL {
	return u
}

// VerifC09PushOrder: the manifest PUT is issued iff every blob upload (layers, then config, in order) succeeded.
func VerifC09PushOrder(maxLayers int) {
	vfTrace = nil
	vfOld = vfArbManifest("local", maxLayers)
	err := PushModel(context.Background(), "registry.example/library/m:latest", &registryOptions{}, func(r api.ProgressResponse) {})
	verifReach("push-returned")
	want := vfLayersOf(vfOld)
	puts, uploadsOK, k := 0, 0, 0
	for _, e := range vfTrace {
		switch e.kind {
		case "upload":
			verifAssert(puts == 0, "no-upload-after-manifest")
			verifAssert(k < len(want) && e.digest == want[k], "uploads-follow-manifest-order")
			k++
			if e.ok {
				uploadsOK++
			}
		case "put-manifest":
			puts++
			verifAssert(uploadsOK == len(want), "manifest-sent-only-after-every-layer-was-accepted")
		}
	}
	verifAssert(puts <= 1, "manifest-sent-at-most-once")
	if err == nil {
		verifReach("push-succeeded")
		verifAssert(puts == 1 && uploadsOK == len(want), "push-success-means-all-layers-and-manifest-sent")
	}
}
