package server

import (
	"context"
	"io"
	"net/http"
	"net/url"
	"time"
)

// C03, one part of a download: the REAL blobDownload.downloadChunk (request goroutine, stall watchdog,
// errgroup) for a part whose first transfer stalls after it has delivered some bytes - the watchdog
// gives it up - and is then retried against a healthy connection, as blobDownload.run does. The retry
// must be able to finish: "an earlier attempt that failed part-way" must not wedge the part.

var (
	vfChunkCtx     context.Context
	vfChunkStall   bool
	vfChunkDeliver int64
	vfPartWrites   int
)

type vfCountWriter struct{ n int64 }

func (w *vfCountWriter) Write(p []byte) (int, error) { w.n += int64(len(p)); return len(p), nil }

type vfChunkBody struct {
	ctx   context.Context
	left  int64
	stall bool
}

func (b *vfChunkBody) Read(p []byte) (int, error) {
	if b.left > 0 {
		n := int64(len(p))
		if n > b.left {
			n = b.left
		}
		if n > 1 {
			n = 1 // byte by byte
		}
		b.left -= n
		return int(n), nil
	}
	if b.stall {
		<-b.ctx.Done() // nothing more arrives until the request is abandoned
		return 0, b.ctx.Err()
	}
	return 0, io.EOF
}
func (b *vfChunkBody) Close() error { return nil }

func vfChunkNewRequest(ctx context.Context, method, u string, body io.Reader) (*http.Request, error) {
	vfChunkCtx = ctx
	return &http.Request{Header: http.Header{}}, nil
}

func vfChunkDo(c *http.Client, req *http.Request) (*http.Response, error) {
	return &http.Response{StatusCode: 206, Body: &vfChunkBody{ctx: vfChunkCtx, left: vfChunkDeliver, stall: vfChunkStall}}, nil
}

func vfWritePart(b *blobDownload, partName string, part *blobDownloadPart) error {
	vfPartWrites++
	return nil
}

// the watchdog's clock: during the stalled transfer more than 30 s have passed since the last byte
func vfSince(t time.Time) time.Duration {
	if vfChunkStall {
		return 31 * time.Second
	}
	return time.Second
}

func vfChunkTicker(d time.Duration) *time.Ticker {
	ch := make(chan time.Time)
	go func() {
		for {
			ch <- time.Time{}
		}
	}()
	return &time.Ticker{C: ch}
}

// VerifC03ChunkRetry: a part of size bytes; the first transfer delivers 1..size-1 bytes and stalls.
func VerifC03ChunkRetry(size int) {
	b := &blobDownload{Digest: "sha256:aaaaaaaaaaaaaaaaaaaaaaaaaaaaaaaaaaaaaaaaaaaaaaaaaaaaaaaaaaaaaaaa", Total: int64(size)}
	part := &blobDownloadPart{N: 0, Offset: 0, Size: int64(size), blobDownload: b}
	u := &url.URL{Scheme: "https", Host: "r", Path: "/blob"}
	w := &vfCountWriter{}

	first := int64(1 + verifChoice(size-1))
	vfChunkStall, vfChunkDeliver, vfPartWrites = true, first, 0
	err1 := b.downloadChunk(context.Background(), u, w, part)
	verifReach("first-transfer-given-up")
	verifAssert(err1 != nil, "stalled-transfer-is-reported")
	verifAssert(part.Completed.Load() == first, "completed-counts-the-bytes-received")

	vfChunkStall, vfChunkDeliver = false, int64(size)-part.Completed.Load()
	err2 := b.downloadChunk(context.Background(), u, w, part)
	verifReach("retry-returned")
	verifAssert(err2 == nil, "retry-of-a-stalled-part-succeeds")
	verifAssert(part.Completed.Load() == int64(size), "part-complete-after-the-retry")
	verifAssert(b.Completed.Load() == int64(size), "progress-counts-every-byte-once")
	verifAssert(w.n == int64(size), "every-byte-written-once")
}
