package server

import (
	"context"
	"errors"
	"io"
	"net/http"
	"net/url"
)

// C03, the request layer under every pull step: the REAL makeRequestWithRetry (status handling, one
// re-authorisation) with the transport replaced by a stub that answers every request with a
// solver-chosen status. What PullModel and pullModelManifest rely on: a response that is handed back
// without an error has a success status - an error page is never decoded as a manifest or stored as
// a blob.

var (
	vfReqStatuses []int
	vfReqCount    int
	vfReqBodies   int
)

type vfRespBody struct{}

func (vfRespBody) Read(p []byte) (int, error) { return 0, io.EOF }
func (vfRespBody) Close() error               { vfReqBodies++; return nil }

func vfMakeRequestStatus(ctx context.Context, method string, requestURL *url.URL, headers http.Header, body io.Reader, regOpts *registryOptions) (*http.Response, error) {
	k := vfReqCount
	vfReqCount++
	if verifChoice(4) == 1 {
		return nil, errors.New("dial tcp: connection refused")
	}
	st := verifNondetInt("status")
	verifAssume(st >= 100 && st <= 599)
	vfReqStatuses = append(vfReqStatuses, st)
	_ = k
	h := http.Header{}
	h.Set("www-authenticate", `Bearer realm="https://r/token",service="r",scope="repository:m:pull"`)
	return &http.Response{StatusCode: st, Header: h, Body: vfRespBody{}}, nil
}

func vfGetToken(ctx context.Context, challenge registryChallenge) (string, error) {
	if verifChoice(2) == 1 {
		return "", errors.New("token endpoint: 500")
	}
	return "token", nil
}

// VerifC03Request: every sequence of response statuses.
func VerifC03Request() {
	vfReqStatuses, vfReqCount, vfReqBodies = nil, 0, 0
	u := &url.URL{Scheme: "https", Host: "r", Path: "/v2/m/manifests/t"}
	resp, err := makeRequestWithRetry(context.Background(), http.MethodGet, u, nil, nil, &registryOptions{})
	verifReach("returned")
	verifAssert(vfReqCount <= 2, "at-most-one-retry")
	verifAssert((resp == nil) != (err == nil), "response-xor-error")
	if err == nil && resp != nil {
		verifReach("response-handed-back")
		verifAssert(len(vfReqStatuses) > 0 && resp.StatusCode == vfReqStatuses[len(vfReqStatuses)-1], "response-is-the-last-one-received")
		verifAssert(resp.StatusCode < 400, "response-handed-back-without-error-has-a-success-status")
	}
	if len(vfReqStatuses) == 2 {
		verifAssert(vfReqStatuses[0] == http.StatusUnauthorized, "retry-only-after-a-401")
	}
}
