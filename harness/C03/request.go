package server

import (
	"context"
	"errors"
	"io"
	"net/http"
	"net/url"
	"os"
	"time"

	"github.com/ollama/ollama/api"
)

// C03, the request layer under every pull step: the REAL makeRequestWithRetry (status handling, one
// re-authorisation) with the transport replaced by a stub that answers every request with a
// solver-chosen status. What PullModel and pullModelManifest rely on: a response that is handed back
// without an error has a success status - an error page is never decoded as a manifest or stored as
// a blob.

var (
	vfReqStatuses []int
	vfReqCount    int
	vfReqBodies   int
)

type vfRespBody struct{}

func (vfRespBody) Read(p []byte) (int, error) { return 0, io.EOF }
func (vfRespBody) Close() error               { vfReqBodies++; return nil }

func vfMakeRequestStatus(ctx context.Context, method string, requestURL *url.URL, headers http.Header, body io.Reader, regOpts *registryOptions) (*http.Response, error) {
	k := vfReqCount
	vfReqCount++
	if verifChoice(4) == 1 {
		return nil, errors.New("dial tcp: connection refused")
	}
	st := verifNondetInt("status")
	verifAssume(st >= 100 && st <= 599)
	vfReqStatuses = append(vfReqStatuses, st)
	_ = k
	h := http.Header{}
	h.Set("www-authenticate", `Bearer realm="https://r/token",service="r",scope="repository:m:pull"`)
	return &http.Response{StatusCode: st, Header: h, Body: vfRespBody{}}, nil
}

func vfGetToken(ctx context.Context, challenge registryChallenge) (string, error) {
	if verifChoice(2) == 1 {
		return "", errors.New("token endpoint: 500")
	}
	return "token", nil
}

// VerifC03Request: every sequence of response statuses.
func VerifC03Request() {
	vfReqStatuses, vfReqCount, vfReqBodies = nil, 0, 0
	u := &url.URL{Scheme: "https", Host: "r", Path: "/v2/m/manifests/t"}
	resp, err := makeRequestWithRetry(context.Background(), http.MethodGet, u, nil, nil, &registryOptions{})
	verifReach("returned")
	verifAssert(vfReqCount <= 2, "at-most-one-retry")
	verifAssert((resp == nil) != (err == nil), "response-xor-error")
	if err == nil && resp != nil {
		verifReach("response-handed-back")
		verifAssert(len(vfReqStatuses) > 0 && resp.StatusCode == vfReqStatuses[len(vfReqStatuses)-1], "response-is-the-last-one-received")
		verifAssert(resp.StatusCode < 400, "response-handed-back-without-error-has-a-success-status")
	}
	if len(vfReqStatuses) == 2 {
		verifAssert(vfReqStatuses[0] == http.StatusUnauthorized, "retry-only-after-a-401")
	}
}

// ---- the digest of a layer comes from the served manifest: every short string ----

func vfModelsDir() string                                 { return "/models" }
func vfMkdirAllOK(path string, perm os.FileMode) error    { return nil }
func vfStatBlobsDir(name string) (os.FileInfo, error) {
	if name == "/models/blobs" {
		return vfDirInfo{}, nil
	}
	return nil, os.ErrNotExist
}

type vfDirInfo struct{}

func (vfDirInfo) Name() string       { return "blobs" }
func (vfDirInfo) Size() int64        { return 4096 }
func (vfDirInfo) Mode() os.FileMode  { return os.ModeDir | 0o755 }
func (vfDirInfo) ModTime() time.Time { return time.Time{} }
func (vfDirInfo) IsDir() bool        { return true }
func (vfDirInfo) Sys() any           { return nil }

func vfPrepareFail(b *blobDownload, ctx context.Context, requestURL *url.URL, opts *registryOptions) error {
	return errors.New("HEAD failed")
}

// VerifC03LayerDigest: downloadBlob with the real GetBlobsPath for every digest string of up to maxLen
// bytes a served manifest may carry (a malformed manifest must produce an error, never a crash).
func VerifC03LayerDigest(maxLen int) {
	d := verifNondetString("digest", maxLen)
	_, err := downloadBlob(context.Background(), downloadOpts{mp: ModelPath{Namespace: "library", Repository: "m"}, digest: d, regOpts: &registryOptions{}, fn: func(api.ProgressResponse) {}})
	verifReach("returned")
	verifAssert(err != nil, "malformed-layer-digest-is-an-error")
}
