package server

import (
	"io"
	"io/fs"
	"os"

	"github.com/ollama/ollama/types/model"
)

// C12 / C04, copy: the real CopyModel over a model file system in which a path names a FILE OBJECT
// (so that a hard link is two paths naming one object). After `cp a b`, b's manifest must be a file of
// its own with a's content: a later rewrite of a's manifest - PullModel and WriteManifest truncate the
// file in place and then write it, and the process may die in between - must not touch b.

type vcFile struct{ data []byte }

type vcHandle struct {
	file *vcFile
	pos  int
}

var (
	vcFS      map[string]*vcFile
	vcHandles map[*os.File]*vcHandle
)

func vcManifestPath() (string, error) { return "/models/manifests", nil }
func vcMkdirAll(path string, perm os.FileMode) error { return nil }

func vcOpen(name string) (*os.File, error) {
	f := vcFS[name]
	if f == nil {
		return nil, fs.ErrNotExist
	}
	h := new(os.File)
	vcHandles[h] = &vcHandle{file: f}
	return h, nil
}

func vcCreate(name string) (*os.File, error) {
	f := vcFS[name]
	if f == nil {
		f = &vcFile{}
		vcFS[name] = f
	}
	f.data = nil // O_TRUNC
	h := new(os.File)
	vcHandles[h] = &vcHandle{file: f}
	return h, nil
}

func vcOpenFile(name string, flag int, perm os.FileMode) (*os.File, error) {
	if flag&os.O_CREATE != 0 {
		if flag&os.O_TRUNC != 0 || vcFS[name] == nil {
			return vcCreate(name)
		}
	}
	return vcOpen(name)
}

func vcLink(oldname, newname string) error {
	f := vcFS[oldname]
	if f == nil {
		return fs.ErrNotExist
	}
	if vcFS[newname] != nil {
		return fs.ErrExist
	}
	vcFS[newname] = f
	return nil
}

func vcSymlink(oldname, newname string) error {
	// a symbolic link to the source's path reads the source's object too
	return vcLink(oldname, newname)
}

func vcRemove(name string) error {
	if vcFS[name] == nil {
		return fs.ErrNotExist
	}
	delete(vcFS, name)
	return nil
}

func vcRename(oldpath, newpath string) error {
	f := vcFS[oldpath]
	if f == nil {
		return fs.ErrNotExist
	}
	vcFS[newpath] = f
	delete(vcFS, oldpath)
	return nil
}

func vcRead(h *os.File, p []byte) (int, error) {
	s := vcHandles[h]
	if s.pos >= len(s.file.data) {
		return 0, io.EOF
	}
	n := copy(p, s.file.data[s.pos:])
	s.pos += n
	return n, nil
}

func vcWrite(h *os.File, p []byte) (int, error) {
	s := vcHandles[h]
	for i := range p {
		if at := s.pos + i; at < len(s.file.data) {
			s.file.data[at] = p[i]
		} else {
			s.file.data = append(s.file.data, p[i])
		}
	}
	s.pos += len(p)
	return len(p), nil
}

func vcWriteTo(h *os.File, w io.Writer) (int64, error) {
	var total int64
	buf := make([]byte, 4)
	for {
		n, err := vcRead(h, buf)
		if n > 0 {
			m, werr := w.Write(buf[:n])
			total += int64(m)
			if werr != nil {
				return total, werr
			}
		}
		if err == io.EOF {
			return total, nil
		}
	}
}

func vcReadFrom(h *os.File, r io.Reader) (int64, error) {
	var total int64
	buf := make([]byte, 4)
	for {
		n, err := r.Read(buf)
		if n > 0 {
			vcWrite(h, buf[:n])
			total += int64(n)
		}
		if err == io.EOF {
			return total, nil
		}
		if err != nil {
			return total, err
		}
	}
}

func vcClose(h *os.File) error { return nil }

func vcReadFile(name string) ([]byte, error) {
	f := vcFS[name]
	if f == nil {
		return nil, fs.ErrNotExist
	}
	return append([]byte(nil), f.data...), nil
}

func vcWriteFile(name string, data []byte, perm os.FileMode) error {
	h, _ := vcCreate(name)
	vcWrite(h, data)
	return nil
}

// VerifC12Copy: manifests of a (and, choice, of b) exist with arbitrary contents; a is copied onto b.
func VerifC12Copy(size int) {
	vcFS, vcHandles = map[string]*vcFile{}, map[*os.File]*vcHandle{}
	src := model.Name{Host: "h", Namespace: "n", Model: "a", Tag: "t"}
	dst := model.Name{Host: "h", Namespace: "n", Model: "b", Tag: "t"}
	sp, dp := "/models/manifests/h/n/a/t", "/models/manifests/h/n/b/t"
	a := make([]byte, size)
	for i := range a {
		a[i] = verifNondetU8("manifest-a")
	}
	srcThere := verifChoice(2) == 1
	if srcThere {
		vcFS[sp] = &vcFile{data: append([]byte(nil), a...)}
	}
	var bOld *vcFile
	if verifChoice(2) == 1 {
		bOld = &vcFile{data: []byte{verifNondetU8("manifest-b")}}
		vcFS[dp] = bOld
	}
	err := CopyModel(src, dst)
	if !srcThere {
		// copying a model that does not exist fails and leaves an existing destination model alone
		verifReach("source-missing")
		verifAssert(err != nil, "copy-of-a-missing-model-fails")
		if bOld != nil {
			verifAssert(vcFS[dp] == bOld && len(bOld.data) == 1, "failed-copy-leaves-the-destination-model-untouched")
		} else {
			verifAssert(vcFS[dp] == nil || len(vcFS[dp].data) > 0, "failed-copy-leaves-no-empty-manifest")
		}
		return
	}
	verifReach("copied")
	verifAssert(err == nil, "copy-succeeds")
	d := vcFS[dp]
	verifAssert(d != nil, "destination-manifest-exists")
	if d == nil {
		return
	}
	same := len(d.data) == size
	for i := 0; same && i < size; i++ {
		same = d.data[i] == a[i]
	}
	verifAssert(same, "destination-manifest-has-the-source's-content")
	verifAssert(vcFS[sp] != nil && len(vcFS[sp].data) == size, "source-manifest-is-untouched")
	// a later pull / create of the source rewrites its manifest in place (truncate, then write) and may
	// be killed in between: the copy must not feel it
	if s := vcFS[sp]; s != nil {
		s.data = nil
	}
	same = len(d.data) == size
	for i := 0; same && i < size; i++ {
		same = d.data[i] == a[i]
	}
	verifAssert(same, "at-every-crash-point-of-a-later-rewrite-of-the-source-the-copy-keeps-its-manifest")
}
