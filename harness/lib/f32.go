package PKG

import "math"

func verifF32(b uint32) float32 { return math.Float32frombits(b) }
