package PKG

// Harness vocabulary. The symbolic engine intercepts every function whose name starts
// with "verif" (these bodies are then ignored); compiled natively the same functions pop
// the values of a counterexample from a replay vector, so that a solver model can be
// re-run against the real build.

import (
	"fmt"
	"os"
	"runtime"
	"strconv"
	"strings"
)

var (
	verifVec    []uint64
	verifPos    int
	verifFailed []string
)

type verifAssumeFailed struct{}

func verifLoadReplay() {
	verifVec, verifPos, verifFailed = nil, 0, nil
	for _, f := range strings.Fields(os.Getenv("VERIF_REPLAY")) {
		v, err := strconv.ParseUint(f, 10, 64)
		if err != nil {
			panic("bad VERIF_REPLAY: " + f)
		}
		verifVec = append(verifVec, v)
	}
}

func verifPop() uint64 {
	if verifPos < len(verifVec) {
		verifPos++
		return verifVec[verifPos-1]
	}
	verifPos++
	return 0
}

func verifNondetU64(tag string) uint64   { return verifPop() }
func verifNondetInt64(tag string) int64  { return int64(verifPop()) }
func verifNondetInt(tag string) int      { return int(verifPop()) }
func verifNondetU32(tag string) uint32   { return uint32(verifPop()) }
func verifNondetInt32(tag string) int32  { return int32(verifPop()) }
func verifNondetU16(tag string) uint16   { return uint16(verifPop()) }
func verifNondetU8(tag string) uint8     { return uint8(verifPop()) }
func verifNondetBool(tag string) bool    { return verifPop() != 0 }
func verifNondetF32(tag string) float32  { return verifF32(uint32(verifPop())) }
func verifChoice(n int) int              { return int(verifPop()) }
func verifConcretize(v int) int          { return v }

var (
	verifAllocLimit uint64
	verifAllocStart uint64
)

// verifAllocBudget: natively, remember the budget and the allocation counter; verifRunReplay
// reports VERIF-ALLOC-EXCEEDED if more than the budget was allocated afterwards.
func verifAllocBudget(limit uint64) {
	var ms runtime.MemStats
	runtime.ReadMemStats(&ms)
	verifAllocLimit, verifAllocStart = limit, ms.TotalAlloc
}

func verifCheckAlloc() {
	if verifAllocLimit == 0 {
		return
	}
	var ms runtime.MemStats
	runtime.ReadMemStats(&ms)
	if used := ms.TotalAlloc - verifAllocStart; used > verifAllocLimit {
		fmt.Printf("VERIF-ALLOC-EXCEEDED allocated=%d budget=%d\n", used, verifAllocLimit)
	}
}
func verifReach(tag string)              {}
func verifNote(tag string)               {}
func verifYield()                        {}
func verifQuiesce()                      {}
func verifHoldTimers(hold bool)          {}

func verifNondetString(tag string, maxLen int) string {
	return string(verifNondetBytes(tag, maxLen))
}

func verifNondetBytes(tag string, maxLen int) []byte {
	n := int(verifPop())
	b := make([]byte, maxLen)
	for i := range b {
		b[i] = byte(verifPop())
	}
	if n > maxLen {
		panic(verifAssumeFailed{})
	}
	return b[:n]
}

func verifAssume(c bool) {
	if !c {
		panic(verifAssumeFailed{})
	}
}

func verifAssert(c bool, tag string) {
	if !c {
		verifFailed = append(verifFailed, tag)
		fmt.Println("VERIF-ASSERT-FAILED " + tag)
	}
}

// verifRunReplay runs one entry natively and reports what happened.
func verifRunReplay(entry func()) (failed []string, panicked any) {
	verifLoadReplay()
	verifAllocLimit = 0
	defer func() {
		failed = verifFailed
		verifCheckAlloc()
		if r := recover(); r != nil {
			if _, ok := r.(verifAssumeFailed); ok {
				fmt.Println("VERIF-ASSUME-FAILED")
				failed = append(failed, "assume-failed")
				return
			}
			panicked = r
			fmt.Printf("VERIF-PANIC %v\n", r)
		}
	}()
	entry()
	return
}

func verifIteString(c bool, a, b string) string {
	if c {
		return a
	}
	return b
}

// verifFillBytes stores fresh nondeterministic bytes into p[0:n] (n <= max <= len-capacity of p).
// Exactly min(max, cap(p)) values are consumed from the replay vector.
func verifFillBytes(tag string, p []byte, n int, max int) {
	p = p[:cap(p)]
	for i := 0; i < max && i < len(p); i++ {
		b := byte(verifPop())
		if i < n {
			p[i] = b
		}
	}
}
